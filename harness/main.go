// Command vh is the Go side of the /verif conformance machinery: it drives the REAL
// alttpo/snes code (from /repo's working tree, via the replace directive in go.mod),
// records ndjson traces / tables for TLC to judge, and replays TLC-generated behaviours.
// It contains drivers, projections and loggers only; expected values come from the TLA+
// specifications (see /verif/DESIGN.md 1.2).
package main

import (
	"fmt"
	"os"
	"strconv"
)

type cmdFn func(args []string) error

var commands = map[string]cmdFn{}

func register(name string, f cmdFn) { commands[name] = f }

func seedEnv() int64 {
	s, err := strconv.ParseInt(os.Getenv("VERIF_SEED"), 10, 64)
	if err != nil {
		return 1
	}
	return s
}

func main() {
	if len(os.Args) < 2 {
		fmt.Fprintln(os.Stderr, "usage: vh <command> [args]")
		os.Exit(2)
	}
	f, ok := commands[os.Args[1]]
	if !ok {
		fmt.Fprintf(os.Stderr, "vh: unknown command %q\n", os.Args[1])
		os.Exit(2)
	}
	if err := f(os.Args[2:]); err != nil {
		fmt.Fprintf(os.Stderr, "vh %s: %v\n", os.Args[1], err)
		os.Exit(2)
	}
}
