package main

// Emitter family (C03, C06, C07, C15, C16, C19): one executor that runs call scenarios on REAL
// asm.Emitter objects and logs one event per call for EmitterTrace.tla.  Scenarios come either from
// the seeded random generator below or from call sequences exported by TLC from EmitterMC (replay).

import (
	"bufio"
	"bytes"
	"encoding/json"
	"fmt"
	"math/rand"
	"os"
	"reflect"
	"regexp"
	"sort"
	"strconv"
	"strings"

	"github.com/alttpo/snes/asm"
	"github.com/alttpo/snes/emulator/bus"
	"github.com/alttpo/snes/emulator/cpu65c816"
	"github.com/alttpo/snes/emulator/cpualt"
)

type callT struct {
	M string        `json:"m"`
	A []interface{} `json:"a"`
}

type scenarioT struct {
	Cap   int     `json:"cap"` // -1 = no target buffer
	Gen   bool    `json:"gen"`
	Dry   bool    `json:"dry"` // mirror every call into a nil-target twin (id 2)
	Calls []callT `json:"calls"`
}

var nonEmitting = map[string]bool{
	"Clone": true, "Append": true, "WriteTextTo": true, "WriteHexTo": true, "Finalize": true, "Label": true,
	"GetLabel": true, "Cap": true, "Len": true, "Bytes": true, "PC": true, "SetBase": true, "GetBase": true,
	"Comment": true, "EmitBytes": true, "Flags": true, "IsX16bit": true, "IsM16bit": true, "AssumeREP": true,
	"AssumeSEP": true, "VerifState": true, // (VerifState: the optional debugging hook of /repo, build tag verif; not used)
}

// instruction-emitting methods of the real type, by reflection
func emitMethodsAll() []string {
	t := reflect.TypeOf(&asm.Emitter{})
	var out []string
	for i := 0; i < t.NumMethod(); i++ {
		n := t.Method(i).Name
		if !nonEmitting[n] {
			out = append(out, n)
		}
	}
	sort.Strings(out)
	return out
}

// the methods the generators draw from: those of the real type that Emitter.tla classifies (VERIF_EMIT_KNOWN, set by
// the driver from the TLC-exported table); methods added to the API since are reported by the driver, not called blindly
func emitMethods() []string {
	all := emitMethodsAll()
	known := os.Getenv("VERIF_EMIT_KNOWN")
	if known == "" {
		return all
	}
	ok := map[string]bool{}
	for _, n := range strings.Split(known, ",") {
		ok[n] = true
	}
	var out []string
	for _, n := range all {
		if ok[n] {
			out = append(out, n)
		}
	}
	return out
}

func toInt(v interface{}) int {
	switch x := v.(type) {
	case float64:
		return int(x)
	case int:
		return x
	case json.Number:
		i, _ := x.Int64()
		return int(i)
	}
	return 0
}

// invoke a method by name with spec-style arguments; returns panic text ("" if none) and results
var workBuf = map[int][]byte{}

func invoke(e *asm.Emitter, c callT) (pan string, ret []reflect.Value) {
	defer func() {
		if r := recover(); r != nil {
			pan = fmt.Sprint(r)
			if pan == "" {
				pan = "panic"
			}
		}
	}()
	if c.M == "EmitBytes" {
		// callers commonly refill ONE work buffer and emit it again: blocks of equal length share a backing array here
		b := workBuf[len(c.A)]
		if b == nil {
			b = make([]byte, len(c.A))
			workBuf[len(c.A)] = b
		}
		for i, v := range c.A {
			b[i] = byte(toInt(v))
		}
		e.EmitBytes(b)
		for i := range b { // ... and may scribble over it afterwards
			b[i] ^= 0x5A
		}
		return
	}
	mv := reflect.ValueOf(e).MethodByName(c.M)
	if !mv.IsValid() {
		panic("harness: no such method " + c.M)
	}
	mt := mv.Type()
	var in []reflect.Value
	ai := 0
	for i := 0; i < mt.NumIn(); i++ {
		pt := mt.In(i)
		switch pt.Kind() {
		case reflect.String:
			in = append(in, reflect.ValueOf(c.A[ai].(string)))
			ai++
		case reflect.Uint32:
			if c.M == "SetBase" {
				in = append(in, reflect.ValueOf(uint32(toInt(c.A[ai]))))
				ai++
			} else { // <<low word, high word>>
				v := uint32(toInt(c.A[ai])) | uint32(toInt(c.A[ai+1]))<<16
				in = append(in, reflect.ValueOf(v))
				ai += 2
			}
		case reflect.Int8:
			in = append(in, reflect.ValueOf(int8(uint8(toInt(c.A[ai])))))
			ai++
		default: // uint8, uint16, asm.Flags
			v := reflect.New(pt).Elem()
			v.SetUint(uint64(toInt(c.A[ai])))
			in = append(in, v)
			ai++
		}
	}
	ret = mv.Call(in)
	return
}

func mapU32(m map[string]uint32) map[string]int {
	o := map[string]int{}
	for k, v := range m {
		o[k] = int(v)
	}
	return o
}
func mapU32s(m map[string][]uint32) map[string][]int {
	o := map[string][]int{}
	for k, v := range m {
		l := make([]int, len(v))
		for i, x := range v {
			l[i] = int(x)
		}
		o[k] = l
	}
	return o
}
func ints(b []byte) []int {
	o := make([]int, len(b))
	for i, x := range b {
		o[i] = int(x)
	}
	return o
}

// Everything the harness observes of an Emitter comes through its PUBLIC API (Len, Cap, Bytes, PC, GetBase, Flags,
// GetLabel for every label name the scenario uses, the two listings, Finalize): no build-tag hook is needed, and a
// refactoring of private fields cannot disturb the checks.
type pubState struct {
	N         int
	Cap       int
	HasTarget bool
	Address   uint32
	Base      uint32
	Flags     uint8
	Labels    map[string]uint32
}

var scenarioNames []string // label names used by the scenario being executed

func pub(e *asm.Emitter) pubState {
	s := pubState{N: e.Len(), Cap: e.Cap(), HasTarget: e.Bytes() != nil, Address: e.PC(), Base: e.GetBase(), Flags: uint8(e.Flags()),
		Labels: map[string]uint32{}}
	for _, n := range scenarioNames {
		if v, ok := e.GetLabel(n); ok {
			s.Labels[n] = v
		}
	}
	return s
}

func proj(ev map[string]interface{}, s pubState) {
	ev["n"] = s.N
	ev["addr"] = int(s.Address)
	ev["base"] = int(s.Base)
	ev["flags"] = int(s.Flags)
	ev["labels"] = mapU32(s.Labels)
}

var reHexByte = regexp.MustCompile(`0x([0-9a-f]{2}),`)
var reTextIns = regexp.MustCompile(` ; \$([0-9a-f]{6})  ((?:[0-9a-f]{2} ?)+)`)
var reDbByte = regexp.MustCompile(`\$([0-9a-f]{2})`)

func parseHex(out string) (items []map[string]interface{}, all []int) {
	all = []int{}
	for _, ln := range strings.Split(strings.TrimSuffix(out, "\n"), "\n") {
		if out == "" {
			break
		}
		it := map[string]interface{}{"t": "?", "addr": -1, "bytes": []int{}, "txt": ""}
		switch {
		case strings.HasPrefix(ln, "// base $"):
			a, _ := strconv.ParseInt(ln[len("// base $"):], 16, 64)
			it["t"], it["addr"] = "base", int(a)
		case strings.HasPrefix(ln, "// ") && strings.HasSuffix(ln, ":"):
			it["t"], it["txt"] = "label", ln[3:len(ln)-1]
		case strings.HasPrefix(ln, "// "):
			it["t"], it["txt"] = "comment", ln[3:]
		case strings.HasPrefix(ln, "0x") || ln == "":
			code := ln
			cm := ""
			if i := strings.Index(ln, " // "); i >= 0 {
				code, cm = ln[:i], ln[i+4:]
			}
			bs := []int{}
			for _, m := range reHexByte.FindAllStringSubmatch(code, -1) {
				v, _ := strconv.ParseInt(m[1], 16, 64)
				bs = append(bs, int(v))
			}
			it["bytes"] = bs
			all = append(all, bs...)
			if cm != "" || strings.Contains(ln, " // ") {
				it["t"] = "ins"
			} else {
				it["t"] = "db"
			}
		}
		items = append(items, it)
	}
	if items == nil {
		items = []map[string]interface{}{}
	}
	return
}

func parseText(out string) (items []map[string]interface{}) {
	items = []map[string]interface{}{}
	if out == "" {
		return
	}
	lines := strings.Split(strings.TrimSuffix(out, "\n"), "\n")
	for i := 0; i < len(lines); i++ {
		ln := lines[i]
		it := map[string]interface{}{"t": "?", "addr": -1, "bytes": []int{}, "txt": ""}
		switch {
		case strings.HasPrefix(ln, "base $"):
			a, _ := strconv.ParseInt(ln[len("base $"):], 16, 64)
			it["t"], it["addr"] = "base", int(a)
		case strings.HasPrefix(ln, "    ; $") && len(ln) == len("    ; $")+6 && i+1 < len(lines) && strings.HasPrefix(lines[i+1], "    db"):
			a, _ := strconv.ParseInt(ln[len("    ; $"):], 16, 64)
			bs := []int{}
			for _, m := range reDbByte.FindAllStringSubmatch(lines[i+1], -1) {
				v, _ := strconv.ParseInt(m[1], 16, 64)
				bs = append(bs, int(v))
			}
			it["t"], it["addr"], it["bytes"] = "db", int(a), bs
			i++
		case strings.HasPrefix(ln, "    ; "):
			it["t"], it["txt"] = "comment", ln[len("    ; "):]
		case !strings.HasPrefix(ln, " ") && !strings.HasPrefix(ln, "!!") && strings.HasSuffix(ln, ":"):
			it["t"], it["txt"] = "label", ln[:len(ln)-1]
		default:
			if m := reTextIns.FindStringSubmatch(ln); m != nil {
				a, _ := strconv.ParseInt(m[1], 16, 64)
				bs := []int{}
				for _, h := range strings.Fields(m[2]) {
					if len(h) != 2 {
						break
					}
					v, err := strconv.ParseInt(h, 16, 64)
					if err != nil {
						break
					}
					bs = append(bs, int(v))
				}
				it["t"], it["addr"], it["bytes"] = "ins", int(a), bs
			}
		}
		items = append(items, it)
	}
	return
}

var reUnres = regexp.MustCompile(`could not resolve label '(.*)'`)
var reRange = regexp.MustCompile(`branch from (0x[0-9a-f]+|0) to (0x[0-9a-f]+|0) too far`)

var reWord = regexp.MustCompile(`[A-Za-z_][A-Za-z_0-9]*`)
var reNum = regexp.MustCompile(`(?i)(0x|\$)([0-9a-f]+)|\b([0-9]+)\b`)

func parseFinalizeErr(err error) map[string]interface{} {
	o := map[string]interface{}{"class": "none", "label": "", "from": 0, "to": 0, "text": "", "words": []string{}, "nums": []int{}}
	if err == nil {
		return o
	}
	o["text"] = err.Error()
	// fallback for wordings the two patterns below do not know: every identifier and every number the message mentions
	words := reWord.FindAllString(err.Error(), -1)
	if words == nil {
		words = []string{}
	}
	nums := []int{}
	for _, m := range reNum.FindAllStringSubmatch(err.Error(), -1) {
		if m[2] != "" {
			if v, e := strconv.ParseInt(m[2], 16, 64); e == nil && v < 1<<31 {
				nums = append(nums, int(v))
			}
		} else if v, e := strconv.ParseInt(m[3], 10, 64); e == nil && v < 1<<31 {
			nums = append(nums, int(v))
		}
	}
	o["words"], o["nums"] = words, nums
	if m := reUnres.FindStringSubmatch(err.Error()); m != nil {
		o["class"], o["label"] = "unresolved", m[1]
		return o
	}
	if m := reRange.FindStringSubmatch(err.Error()); m != nil {
		f, _ := strconv.ParseInt(m[1], 0, 64)
		t, _ := strconv.ParseInt(m[2], 0, 64)
		o["class"], o["from"], o["to"] = "range", int(f), int(t)
		return o
	}
	o["class"] = "other"
	return o
}

// ---------------------------------------------------------------------------------------------
// CPU execution of emitted code (C07) and single-instruction decode (C03)

// memory for executing emitted code: the program's bank holds the code (write-protected); every other
// address reads a bank-dependent pseudo-random fill unless written (so a byte fetched from the wrong bank
// is not accidentally the right one)
type progMem struct {
	data    []byte // the 64 KiB of the program bank
	other   map[uint32]byte
	base    uint32
	n       int
	fetches []int
	first   bool
}

func progFill(a uint32) byte { return byte(a*29 + (a>>8)*13 + (a>>16)*101 + 7) }

func (m *progMem) Read(a uint32) byte {
	if m.first {
		// consecutive repeats of one opcode address (a block move re-executing itself) are logged once
		if n := len(m.fetches); (n == 0 || m.fetches[n-1] != int(a)) && n < 3*m.n+64 {
			m.fetches = append(m.fetches, int(a)) // (capped: a CPU gone astray must not produce an unbounded log)
		}
		m.first = false
	}
	if a>>16 == m.base>>16 {
		return m.data[a&0xFFFF]
	}
	if v, ok := m.other[a]; ok {
		return v
	}
	return progFill(a)
}
func (m *progMem) Write(a uint32, v byte) {
	if a>>16 == m.base>>16 {
		off := a & 0xFFFF
		lo := m.base & 0xFFFF
		if off >= lo && off < lo+uint32(m.n) {
			return // program bytes are write-protected
		}
		m.data[off] = v
		return
	}
	if m.other == nil {
		m.other = map[uint32]byte{}
	}
	m.other[a] = v
}
func (m *progMem) Shutdown()          {}
func (m *progMem) Size() uint32       { return 1 << 24 }
func (m *progMem) Clear()             {}
func (m *progMem) Dump(uint32) []byte { return nil }

var sharedBus *bus.Bus
var sharedAlt *cpualt.CPU

func runCPU(which string, code []byte, base uint32, m0, x0 int, nsteps int) (fetches []int, mEnd, xEnd int, pan string) {
	pm := &progMem{data: make([]byte, 65536), base: base, n: len(code)}
	for i, b := range code {
		pm.data[(base+uint32(i))&0xFFFF] = b
	}
	end := base + uint32(len(code))
	budget := 4*nsteps + 16
	for _, b := range code {
		if b == 0x54 || b == 0x44 {
			budget += 70000 // a block move may re-execute up to 65536 times
		}
	}
	defer func() {
		if r := recover(); r != nil {
			pan = fmt.Sprint(r)
			fetches = pm.fetches
		}
	}()
	if which == "pri" {
		if sharedBus == nil {
			sharedBus, _ = bus.New()
		}
		sharedBus.Attach(pm, "all", 0, 0xFFFFFF)
		c, _ := cpu65c816.New(sharedBus)
		c.E = 0
		c.SetFlags(byte(m0<<5 | x0<<4))
		c.RK, c.PC, c.SP = byte(base>>16), uint16(base), 0x1FF0
		c.RDBR = 0x7E
		for i := 0; i < budget; i++ {
			if uint32(c.RK)<<16|uint32(c.PC) == end {
				break
			}
			pm.first = true
			c.Step()
		}
		return pm.fetches, int(c.M), int(c.X), ""
	}
	if sharedAlt == nil {
		sharedAlt = &cpualt.CPU{}
		sharedAlt.Init()
	}
	c := sharedAlt
	c.Bus.AttachReader(0, 0xFFFFFF, pm.Read)
	c.Bus.AttachWriter(0, 0xFFFFFF, pm.Write)
	c.E = 0
	c.M, c.X = 0, 0
	c.RA, c.RX, c.RY, c.RAl, c.RAh, c.RXl, c.RYl = 0, 0, 0, 0, 0, 0, 0
	c.RD, c.Stopped, c.Interrupt = 0, false, 0
	c.SetFlags(byte(m0<<5 | x0<<4))
	c.RK, c.PC, c.SP = byte(base>>16), uint16(base), 0x1FF0
	c.RDBR = 0x7E
	for i := 0; i < budget; i++ {
		if uint32(c.RK)<<16|uint32(c.PC) == end {
			break
		}
		pm.first = true
		c.Step()
	}
	return pm.fetches, int(c.M), int(c.X), ""
}

var reDis = regexp.MustCompile(`[|│]([0-9a-f ]+?) *[|│]([a-z]{3})`)

func parseDis(line string) map[string]interface{} {
	m := reDis.FindStringSubmatch(line)
	if m == nil {
		return map[string]interface{}{"mn": "?", "len": 0, "raw": line}
	}
	return map[string]interface{}{"mn": m[2], "len": len(strings.Fields(m[1])), "raw": strings.TrimSpace(line)}
}

// the library's own CPUs disassemble the freshly emitted instruction under the tracked widths
func decodeEvent(method string, code []byte, flags uint8) map[string]interface{} {
	pm := &progMem{data: make([]byte, 65536), base: 0x8000, n: len(code)}
	copy(pm.data[0x8000:], code)
	ev := map[string]interface{}{"k": "decode", "m": method, "bytes": ints(code), "flags": int(flags)}
	func() {
		defer func() {
			if r := recover(); r != nil {
				ev["pri"] = map[string]interface{}{"mn": "panic", "len": 0, "raw": fmt.Sprint(r)}
			}
		}()
		if sharedBus == nil {
			sharedBus, _ = bus.New()
		}
		sharedBus.Attach(pm, "all", 0, 0xFFFFFF)
		c, _ := cpu65c816.New(sharedBus)
		c.E = 0
		c.SetFlags(flags & 0x30)
		c.RK, c.PC = 0, 0x8000
		ev["pri"] = parseDis(string(c.DisassembleTo(0x8000, nil)))
	}()
	func() {
		defer func() {
			if r := recover(); r != nil {
				ev["alt"] = map[string]interface{}{"mn": "panic", "len": 0, "raw": fmt.Sprint(r)}
			}
		}()
		if sharedAlt == nil {
			sharedAlt = &cpualt.CPU{}
			sharedAlt.Init()
		}
		c := sharedAlt
		c.Bus.AttachReader(0, 0xFFFFFF, pm.Read)
		c.Bus.AttachWriter(0, 0xFFFFFF, pm.Write)
		c.E = 0
		c.M, c.X = 0, 0
		c.SetFlags(flags & 0x30)
		c.RK, c.PC = 0, 0x8000
		ev["alt"] = parseDis(c.Disassemble(0x8000))
	}()
	return ev
}

// ---------------------------------------------------------------------------------------------

type emitExec struct {
	w           *bufio.Writer
	n           int
	ems         map[int]*asm.Emitter
	twinOK      bool
	lastRefused bool
}

func (x *emitExec) emit(ev map[string]interface{}) {
	b, err := json.Marshal(ev)
	if err != nil {
		panic(err)
	}
	x.w.Write(b)
	x.w.WriteByte('\n')
	x.n++
}

func (x *emitExec) stateEvent(id int, after string) {
	e := x.ems[id]
	s := pub(e)
	ev := map[string]interface{}{"k": "state", "id": id, "after": after}
	proj(ev, s)
	if s.HasTarget {
		ev["cap"] = s.Cap
		ev["code"] = ints(e.Bytes())
	} else {
		ev["cap"] = -1
		ev["code"] = []int{}
	}
	x.emit(ev)
}

func (x *emitExec) doCall(id int, c callT) {
	e := x.ems[id]
	before := pub(e)
	pan, ret := invoke(e, c)
	if id != 2 {
		x.lastRefused = pan != ""
	}
	after := pub(e)
	ev := map[string]interface{}{"k": "call", "id": id, "m": c.M, "a": c.A, "refused": pan != "", "ret": 0}
	if c.A == nil {
		ev["a"] = []int{}
	}
	proj(ev, after)
	if after.HasTarget && after.N >= before.N {
		ev["bytes"] = ints(e.Bytes()[before.N:after.N])
	} else {
		ev["bytes"] = []int{}
	}
	if c.M == "Label" && pan == "" && len(ret) == 1 {
		ev["ret"] = int(ret[0].Uint())
	}
	x.emit(ev)
}

func newEmitter(cap int, gen bool) *asm.Emitter {
	if cap < 0 {
		return asm.NewEmitter(nil, gen)
	}
	// the target's capacity is larger than its length: only the LENGTH is the emitter's capacity
	return asm.NewEmitter(make([]byte, cap, cap+37), gen)
}

func (x *emitExec) run(sc scenarioT) {
	// a panic raised by one of the emitter's public ACCESSORS (Bytes, Len, PC, listings ...) while the harness observes it
	// -- calls of emitting methods are guarded separately -- is itself an observation; the scenario ends there
	defer func() {
		if r := recover(); r != nil {
			x.emit(map[string]interface{}{"k": "crash", "id": 0, "text": fmt.Sprint(r)})
		}
	}()
	scenarioNames = scenarioNames[:0]
	seen := map[string]bool{}
	for _, c := range sc.Calls {
		for _, a := range c.A {
			if n, ok := a.(string); ok && c.M != "Comment" && !seen[n] {
				seen[n] = true
				scenarioNames = append(scenarioNames, n)
			}
		}
	}
	x.ems = map[int]*asm.Emitter{0: newEmitter(sc.Cap, sc.Gen)}
	x.emit(map[string]interface{}{"k": "new", "id": 0, "cap": sc.Cap, "gen": sc.Gen})
	if sc.Dry {
		x.ems[2] = newEmitter(-1, sc.Gen)
		x.emit(map[string]interface{}{"k": "new", "id": 2, "cap": -1, "gen": sc.Gen})
	}
	// C16, stated on real objects: a DIRECT twin (id 3, no events of its own) receives the whole call sequence without
	// Clone/Append; after the Append (and after Finalize, and at the end) everything observable through the public API
	// must be the same on both.  The comparison is dropped when a call was accepted by one and refused by the other
	// (the clone's own capacity) or the Append was refused.
	x.twinOK = false
	for _, c := range sc.Calls {
		if c.M == "Clone" {
			x.ems[3] = newEmitter(sc.Cap, sc.Gen)
			x.twinOK = true
		}
	}
	appended := false
	var stack []int // parents of the open clones
	cur := 0
	var lastM string
	var lastBytes []byte
	var lastFlags uint8
	m0, x0 := 0, 0
	emitted := false
	for _, c := range sc.Calls {
		switch c.M {
		case "Clone": // clones nest: a Clone while a clone is open clones that clone (ids 1, 4, 5, ...)
			cp := toInt(c.A[0])
			parent := cur
			id := 1
			if len(stack) > 0 {
				id = 3 + len(stack)
			}
			if cp < 0 {
				x.ems[id] = x.ems[parent].Clone(nil)
			} else {
				x.ems[id] = x.ems[parent].Clone(make([]byte, cp, cp+11))
			}
			x.emit(map[string]interface{}{"k": "clone", "id": id, "from": parent, "cap": cp})
			x.stateEvent(id, "clone")
			x.stateEvent(parent, "clone")
			stack = append(stack, parent)
			cur = id
		case "Append":
			if len(stack) == 0 {
				continue
			}
			child := cur
			parent := stack[len(stack)-1]
			stack = stack[:len(stack)-1]
			x.stateEvent(parent, "preappend") // the original must be unaffected by anything done to the clone so far
			pan := guard(func() { x.ems[parent].Append(x.ems[child]) })
			x.emit(map[string]interface{}{"k": "append", "id": parent, "from": child, "refused": pan != ""})
			if pan != "" {
				x.stateEvent(parent, "append_refused") // refused as a whole: bytes, length, PC, flags, labels untouched (C16, C19)
			} else {
				x.stateEvent(parent, "append")
			}
			cur = parent
			if pan != "" {
				x.twinOK = false
			}
			if parent == 0 {
				appended = true
				x.twinEvent("append", "", "")
				x.listingEvents(0, "append")
			}
		case "State":
			for _, id := range []int{0, 1, 2} {
				if x.ems[id] != nil {
					x.stateEvent(id, "")
				}
			}
		case "Finalize":
			id := 0
			if cur != 0 || !pub(x.ems[0]).HasTarget {
				continue // out of domain: Finalize while a clone is open / on a dry-run emitter
			}
			e := x.ems[id]
			var err error
			pan := guard(func() { err = e.Finalize() })
			ev := map[string]interface{}{"k": "finalize", "id": id, "err": parseFinalizeErr(err), "code": ints(e.Bytes()), "panic": pan != "",
				"after": map[bool]string{true: "append", false: ""}[appended]} // after an Append the outcome also speaks about C16
			if pan != "" {
				ev["err"] = map[string]interface{}{"class": "panic", "label": "", "from": 0, "to": 0, "text": pan}
			}
			x.emit(ev)
			if x.ems[3] != nil {
				var err3 error
				pan3 := guard(func() { err3 = x.ems[3].Finalize() })
				cls := func(p string, e error) string {
					if p != "" {
						return "panic"
					}
					if e != nil {
						return "error"
					}
					return "none"
				}
				if appended {
					x.twinEvent("finalize", cls(pan, err), cls(pan3, err3))
				} else if cls(pan, err) != "none" || cls(pan3, err3) != "none" {
					x.twinOK = false
				}
			}
		case "Hex", "Text":
			id := 0
			if !pub(x.ems[0]).HasTarget {
				continue
			}
			e := x.ems[id]
			before := pub(e)
			codeBefore := append([]byte(nil), e.Bytes()...)
			var buf bytes.Buffer
			var err error
			pan := guard(func() {
				if c.M == "Hex" {
					err = e.WriteHexTo(&buf)
				} else {
					err = e.WriteTextTo(&buf)
				}
			})
			after := pub(e)
			changed := !reflect.DeepEqual(before, after) || !bytes.Equal(codeBefore, e.Bytes())
			ev := map[string]interface{}{"id": id, "panic": pan != "" || err != nil, "changed": changed, "code": ints(e.Bytes())}
			if c.M == "Hex" {
				items, all := parseHex(buf.String())
				ev["k"], ev["items"], ev["allbytes"] = "hex", items, all
			} else {
				ev["k"], ev["items"], ev["allbytes"] = "text", parseText(buf.String()), []int{}
			}
			x.emit(ev)
		case "Cpu":
			e := x.ems[0]
			s := pub(e)
			for _, which := range []string{"pri", "alt"} {
				f, mE, xE, pan := runCPU(which, e.Bytes(), s.Base, m0, x0, len(e.Bytes()))
				if f == nil {
					f = []int{}
				}
				x.emit(map[string]interface{}{"k": "cpu", "id": 0, "which": which, "m0": m0, "x0": x0, "fetches": f, "mEnd": mE, "xEnd": xE, "panic": pan != ""})
			}
		case "Decode":
			if lastBytes != nil {
				x.emit(decodeEvent(lastM, lastBytes, lastFlags))
			}
		default:
			nb := pub(x.ems[cur]).N
			x.doCall(cur, c)
			if st := pub(x.ems[cur]); st.HasTarget && st.N > nb {
				lastM, lastBytes, lastFlags = c.M, append([]byte(nil), x.ems[cur].Bytes()[nb:st.N]...), st.Flags
			} else {
				lastBytes = nil
			}
			if sc.Dry && cur == 0 {
				x.doCall(2, c)
			}
			if x.ems[3] != nil {
				pan3, _ := invoke(x.ems[3], c)
				if (pan3 != "") != x.lastRefused {
					x.twinOK = false
				}
			}
			if !emitted {
				s := pub(x.ems[0])
				if s.N > 0 {
					emitted = true
				} else { // initial width assumption = tracked flags before the first emission
					m0, x0 = int(s.Flags>>5)&1, int(s.Flags>>4)&1
				}
			}
		}
	}
	if cur == 0 {
		x.listingEvents(0, map[bool]string{true: "append", false: "end"}[appended])
		if appended {
			x.twinEvent("end", "", "")
		}
	}
	x.run_end()
}

func (x *emitExec) run_end() {
	for _, id := range []int{0, 1, 2} {
		if x.ems[id] != nil {
			x.stateEvent(id, "end")
		}
	}
}

// both listings of emitter id as parsed events (the public output is what C15 / C16 speak about)
func (x *emitExec) listingEvents(id int, after string) {
	e := x.ems[id]
	if e == nil || !pub(e).HasTarget {
		return
	}
	for _, kind := range []string{"hex", "text"} {
		before := pub(e)
		codeBefore := append([]byte(nil), e.Bytes()...)
		var buf bytes.Buffer
		var err error
		pan := guard(func() {
			if kind == "hex" {
				err = e.WriteHexTo(&buf)
			} else {
				err = e.WriteTextTo(&buf)
			}
		})
		changed := !reflect.DeepEqual(before, pub(e)) || !bytes.Equal(codeBefore, e.Bytes())
		ev := map[string]interface{}{"k": kind, "id": id, "panic": pan != "" || err != nil, "changed": changed, "code": ints(e.Bytes()), "after": after}
		if kind == "hex" {
			items, all := parseHex(buf.String())
			ev["items"], ev["allbytes"] = items, all
		} else {
			ev["items"], ev["allbytes"] = parseText(buf.String()), []int{}
		}
		x.emit(ev)
	}
}

// real-vs-real comparison of the clone route (id 0) with the direct twin (id 3) through the public API only
func (x *emitExec) twinEvent(after, fin0, fin3 string) {
	a, b := x.ems[0], x.ems[3]
	if b == nil || !x.twinOK {
		return
	}
	listing := func(e *asm.Emitter, hex bool) string {
		var buf bytes.Buffer
		guard(func() {
			if hex {
				e.WriteHexTo(&buf)
			} else {
				e.WriteTextTo(&buf)
			}
		})
		return buf.String()
	}
	sa, sb := pub(a), pub(b)
	same := map[string]bool{
		"code": bytes.Equal(a.Bytes(), b.Bytes()), "n": a.Len() == b.Len(), "addr": a.PC() == b.PC(),
		"flags": sa.Flags == sb.Flags, "base": a.GetBase() == b.GetBase(), "labels": reflect.DeepEqual(sa.Labels, sb.Labels),
		"final": (fin0 == "none") == (fin3 == "none"),
	}
	if sa.HasTarget {
		same["hex"] = listing(a, true) == listing(b, true)
		same["text"] = listing(a, false) == listing(b, false)
	} else {
		same["hex"], same["text"] = true, true
	}
	if fin0 != "" && (fin0 != "none" || fin3 != "none") {
		// a failed Finalize patches a map-order dependent subset of the operands: only the outcome class is comparable,
		// and the two emitters are not compared any further
		same["code"], same["hex"], same["text"] = true, true, true
		x.twinOK = false
	}
	x.emit(map[string]interface{}{"k": "twin", "id": 0, "after": after, "same": same, "fin": []string{fin0, fin3}})
}

func init() {
	register("emit", func(args []string) error {
		if len(args) >= 1 && args[0] == "methods" {
			return json.NewEncoder(os.Stdout).Encode(emitMethodsAll())
		}
		if len(args) >= 3 && args[0] == "run" { // vh emit run <scenarios.ndjson> <out.ndjson>
			in, err := os.Open(args[1])
			if err != nil {
				return err
			}
			defer in.Close()
			f, err := os.Create(args[2])
			if err != nil {
				return err
			}
			defer f.Close()
			x := &emitExec{w: bufio.NewWriterSize(f, 1<<20)}
			sc := bufio.NewScanner(in)
			sc.Buffer(make([]byte, 1<<20), 1<<26)
			ns := 0
			for sc.Scan() {
				var s scenarioT
				if err := json.Unmarshal(sc.Bytes(), &s); err != nil {
					return fmt.Errorf("scenario %d: %v", ns, err)
				}
				x.run(s)
				ns++
			}
			x.w.Flush()
			fmt.Printf("{\"events\": %d, \"scenarios\": %d}\n", x.n, ns)
			return nil
		}
		if len(args) >= 4 && args[0] == "random" { // vh emit random <profile> <out.ndjson> <scenarios>
			n, _ := strconv.Atoi(args[3])
			f, err := os.Create(args[2])
			if err != nil {
				return err
			}
			defer f.Close()
			x := &emitExec{w: bufio.NewWriterSize(f, 1<<20)}
			r := rand.New(rand.NewSource(seedEnv()))
			for i := 0; i < n; i++ {
				x.run(randomScenario(r, args[1]))
			}
			x.w.Flush()
			fmt.Printf("{\"events\": %d, \"scenarios\": %d}\n", x.n, n)
			return nil
		}
		return fmt.Errorf("usage: vh emit methods | run <in> <out> | random <profile> <out> <n>")
	})
}
