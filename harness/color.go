package main

// C17: color15.  `vh color record` logs sampled real calls for ColorTrace.tla;
// `vh color sweep` compares the real functions exhaustively with tables exported by TLC from Color.tla.

import (
	"bufio"
	"encoding/json"
	"fmt"
	"math/rand"
	"os"
	"runtime"
	"strconv"
	"sync"

	"github.com/alttpo/snes/color15"
)

var colCorners = []uint16{0, 0x7FFF, 0xFFFF, 0x8000, 0x001F, 0x03E0, 0x7C00, 0x0421, 0x7BDE, 0x0200, 0x3DEF}
var mdCorners = []uint8{0, 1, 2, 3, 7, 8, 30, 31, 32, 33, 127, 128, 254, 255}

func pickCol(r *rand.Rand) uint16 {
	if r.Intn(3) == 0 {
		return colCorners[r.Intn(len(colCorners))]
	}
	return uint16(r.Intn(65536))
}
func pickMD(r *rand.Rand) uint8 {
	if r.Intn(2) == 0 {
		return mdCorners[r.Intn(len(mdCorners))]
	}
	return uint8(r.Intn(256))
}

func colorRecord(path string, n int) error {
	r := rand.New(rand.NewSource(seedEnv()))
	f, err := os.Create(path)
	if err != nil {
		return err
	}
	defer f.Close()
	w := bufio.NewWriter(f)
	defer w.Flush()
	for i := 0; i < n; i++ {
		switch i % 8 {
		case 0, 1, 2, 3, 4:
			c, m, d := pickCol(r), pickMD(r), pickMD(r)
			if d == 0 {
				d = 1 + uint8(r.Intn(255))
			}
			res := color15.Color(c).MulDiv(m, d)
			fmt.Fprintf(w, `{"k":"muldiv","c":%d,"m":%d,"d":%d,"r":%d}`+"\n", c, m, d, uint16(res))
		case 5:
			c := pickCol(r)
			rr, g, b := color15.Color(c).ToRGB()
			fmt.Fprintf(w, `{"k":"rgb","c":%d,"r":%d,"g":%d,"b":%d}`+"\n", c, rr, g, b)
		case 6:
			rr, g, b := pickMD(r), pickMD(r), pickMD(r)
			c := color15.ToColor15(rr, g, b)
			fmt.Fprintf(w, `{"k":"pack","r":%d,"g":%d,"b":%d,"c":%d}`+"\n", rr, g, b, uint16(c))
		case 7:
			c := pickCol(r)
			fmt.Fprintf(w, `{"k":"lum","c":%d,"l":%d}`+"\n", c, color15.Color(c).Luminosity())
		}
	}
	return nil
}

type colMismatch struct {
	What string `json:"what"`
	C    int    `json:"c"`
	M    int    `json:"m"`
	D    int    `json:"d"`
	Got  int    `json:"got"`
	Want int    `json:"want"`
}

func colorSweep(scalePath, lumPath, mode string) error {
	var scale [][][]int // [ch][m][d-1], 1-based on the TLA+ side
	var lum []int
	for _, x := range []struct {
		p string
		v interface{}
	}{{scalePath, &scale}, {lumPath, &lum}} {
		b, err := os.ReadFile(x.p)
		if err != nil {
			return err
		}
		if err := json.Unmarshal(b, x.v); err != nil {
			return err
		}
	}
	if len(scale) != 32 || len(scale[0]) != 256 || len(scale[0][0]) != 255 || len(lum) != 32768 {
		return fmt.Errorf("unexpected table shape")
	}
	var mu sync.Mutex
	var bad []colMismatch
	nbad := 0
	var calls uint64
	report := func(m colMismatch) {
		mu.Lock()
		nbad++
		if len(bad) < 20 {
			bad = append(bad, m)
		}
		mu.Unlock()
	}
	checkOne := func(c uint16, m, d uint8) {
		got := uint16(color15.Color(c).MulDiv(m, d))
		cr, cg, cb := int(c&31), int(c>>5&31), int(c>>10&31)
		want := scale[cr][m][d-1] | scale[cg][m][d-1]<<5 | scale[cb][m][d-1]<<10
		if int(got) != want {
			report(colMismatch{"muldiv", int(c), int(m), int(d), int(got), want})
		}
	}
	// colour sets
	var cols []uint16
	if mode == "thorough" {
		for c := 0; c < 65536; c++ {
			cols = append(cols, uint16(c))
		}
	} else {
		seen := map[uint16]bool{}
		add := func(c uint16) {
			if !seen[c] {
				seen[c] = true
				cols = append(cols, c)
			}
		}
		for v := 0; v < 32; v++ { // each channel alone, all equal, and with the others saturated / bit 15 set
			add(uint16(v))
			add(uint16(v << 5))
			add(uint16(v << 10))
			add(uint16(v | v<<5 | v<<10))
			add(uint16(v | 0x7FE0))
			add(uint16(v<<5 | 0x7C1F))
			add(uint16(v<<10 | 0x03FF))
			add(uint16(v|v<<5|v<<10) | 0x8000)
		}
		r := rand.New(rand.NewSource(seedEnv()))
		for i := 0; i < 4096; i++ {
			add(uint16(r.Intn(65536)))
		}
	}
	nw := runtime.NumCPU()
	var wg sync.WaitGroup
	for w := 0; w < nw; w++ {
		wg.Add(1)
		go func(w int) {
			defer wg.Done()
			var n uint64
			for i := w; i < len(cols); i += nw {
				c := cols[i]
				for m := 0; m < 256; m++ {
					for d := 1; d < 256; d++ {
						checkOne(c, uint8(m), uint8(d))
						n++
					}
				}
			}
			mu.Lock()
			calls += n
			mu.Unlock()
		}(w)
	}
	wg.Wait()
	// MulDiv is a pure function: SEQUENTIAL histories (one goroutine) must give the same answers as the table --
	// (a) episodes over small working sets of colours and ratios with immediate repeats (memo tables, stale keys, the
	// multiplicand-0 and equal-ratio fast paths), (b) "fades": a colour that uses channel level 31, then K ratio changes
	// on a dim palette that never touches that level, then the first colour again under a new ratio, for every
	// K in 1..520 and around the powers of two up to 2^17 (generation counters that wrap)
	hcalls := 0
	{
		r := rand.New(rand.NewSource(seedEnv() + 5))
		mds := []uint8{0, 1, 2, 3, 8, 16, 24, 31, 32, 255}
		for ep := 0; ep < 60000; ep++ {
			nc, nr := 1+r.Intn(3), 1+r.Intn(3)
			cs := make([]uint16, nc)
			for i := range cs {
				cs[i] = pickCol(r)
			}
			type ratio struct{ m, d uint8 }
			rs := make([]ratio, nr)
			for i := range rs {
				m, d := pickMD(r), pickMD(r)
				if r.Intn(3) == 0 {
					m, d = mds[r.Intn(len(mds))], mds[r.Intn(len(mds))]
				}
				if d == 0 {
					d = 1 + uint8(r.Intn(255))
				}
				rs[i] = ratio{m, d}
			}
			for k := 3 + r.Intn(8); k > 0; k-- {
				c, q := cs[r.Intn(nc)], rs[r.Intn(nr)]
				checkOne(c, q.m, q.d)
				hcalls++
				if r.Intn(3) == 0 { // immediate repeat of the identical call
					checkOne(c, q.m, q.d)
					hcalls++
				}
			}
		}
		gaps := []int{}
		for k := 1; k <= 520; k++ {
			gaps = append(gaps, k)
		}
		for p := 10; p <= 17; p++ {
			gaps = append(gaps, 1<<uint(p)-1, 1<<uint(p), 1<<uint(p)+1)
		}
		dim := []uint16{0x0421, 0x0842, 0x0000, 0x0C63}
		for _, k := range gaps {
			checkOne(0x7FFF, 1, 1)
			for i := 0; i < k; i++ {
				checkOne(dim[i%len(dim)], uint8(1+i%2), uint8(2+i%2)) // the ratio changes on every call
			}
			checkOne(0x7FFF, 1, 3)
			checkOne(0x7FFF, 2, 3)
			hcalls += k + 3
		}
	}
	// packing / luminosity: all 2^16 colours, all 2^24 byte triples (the statement itself, on the real functions)
	for c := 0; c < 65536; c++ {
		col := color15.Color(c)
		r, g, b := col.ToRGB()
		if back := color15.ToColor15(r, g, b); int(back) != c&0x7FFF {
			report(colMismatch{"pack(unpack(c))", c, 0, 0, int(back), c & 0x7FFF})
		}
		if r > 31 || g > 31 || b > 31 {
			report(colMismatch{"unpack range", c, 0, 0, int(r)<<16 | int(g)<<8 | int(b), 0})
		}
		if l := col.Luminosity(); int(l) != lum[c&0x7FFF] {
			report(colMismatch{"luminosity", c, 0, 0, int(l), lum[c&0x7FFF]})
		}
	}
	for t := 0; t < 1<<24; t++ {
		r, g, b := uint8(t), uint8(t>>8), uint8(t>>16)
		c := color15.ToColor15(r, g, b)
		ur, ug, ub := c.ToRGB()
		if ur != r%32 || ug != g%32 || ub != b%32 || c&0x8000 != 0 {
			report(colMismatch{"unpack(pack(r,g,b))", t, 0, 0, int(c), 0})
		}
	}
	return json.NewEncoder(os.Stdout).Encode(map[string]interface{}{
		"muldiv_calls": calls, "history_calls": hcalls, "colours": len(cols), "triples": 1 << 24, "mismatches": nbad, "examples": bad,
	})
}

func init() {
	register("color", func(args []string) error {
		if len(args) >= 3 && args[0] == "record" {
			n, _ := strconv.Atoi(args[2])
			return colorRecord(args[1], n)
		}
		if len(args) >= 4 && args[0] == "sweep" {
			return colorSweep(args[1], args[2], args[3])
		}
		return fmt.Errorf("usage: vh color record <out> <n> | sweep <scale.json> <lum.json> quick|thorough")
	})
}
