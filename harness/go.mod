module verif/harness

go 1.21

require github.com/alttpo/snes v0.0.0

replace github.com/alttpo/snes => /repo
