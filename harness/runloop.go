package main

// C12 (RunUntil part): real emulator.System.RunUntil runs observed without hooks -- OnPC callbacks on
// every address of the program area report each fetch with the running cycle total, a Logger
// reports traced addresses, OnWDM reports WDM operands -- logged for RunLoopTrace.tla.

import (
	"bufio"
	"bytes"
	"encoding/json"
	"fmt"
	"io"
	"math/rand"
	"os"
	"regexp"
	"strconv"
	"sync"
	"time"

	"github.com/alttpo/snes/emulator"
)

type evLogger struct {
	emit   func(map[string]interface{})
	sys    *emulator.System
	lost   *bool
	writes *int // trace lines of the current run; more than the budget allows means RunUntil does not terminate
	limit  *int
}

var reLinePC = regexp.MustCompile(`([0-9a-f]{2}):([0-9a-f]{4})`)

func (l *evLogger) Write(p []byte) (int, error) {
	*l.writes++
	if *l.writes > *l.limit {
		panic(abortRun{}) // every traced instruction consumes at least one cycle: the loop is not making progress
	}
	m := reLinePC.FindSubmatch(p)
	pc := -1
	if m != nil {
		b, _ := strconv.ParseInt(string(m[1]), 16, 32)
		o, _ := strconv.ParseInt(string(m[2]), 16, 32)
		pc = int(b)<<16 | int(o)
	}
	if !inObserved(pc) {
		if !*l.lost {
			l.emit(map[string]interface{}{"k": "lost"}) // execution left the observed program area: the run is not judged further
			*l.lost = true
		}
		return len(p), nil
	}
	l.emit(map[string]interface{}{"k": "log", "pc": pc, "all": int(l.sys.CPU.AllCycles)})
	return len(p), nil
}

// a Logger that additionally implements the optional Reserver / Committer interfaces of emulator.System
type evLoggerRC struct {
	evLogger
	reserved, commits int
}

func (l *evLoggerRC) Reserve(n int) { l.reserved += n }
func (l *evLoggerRC) Commit()       { l.commits++ }

type abortRun struct{}

// the observed program areas: $00:8000-$83FF (ROM) and the last 16 bytes of SRAM bank $70
func inObserved(pc int) bool {
	return (pc >= 0x8000 && pc < 0x8400) || (pc >= 0x707FF0 && pc <= 0x707FFF)
}

func init() {
	register("run", func(args []string) error {
		if len(args) < 3 || args[0] != "record" {
			return fmt.Errorf("usage: vh run record <out.ndjson> <runs>")
		}
		n, _ := strconv.Atoi(args[2])
		f, err := os.Create(args[1])
		if err != nil {
			return err
		}
		defer f.Close()
		w := bufio.NewWriterSize(f, 1<<20)
		defer w.Flush()
		cnt := 0
		var emu sync.Mutex
		muted := false // set when a run hangs: the stuck goroutine must not write any more
		emit := func(ev map[string]interface{}) {
			b, _ := json.Marshal(ev)
			emu.Lock()
			defer emu.Unlock()
			if muted {
				return
			}
			w.Write(b)
			w.WriteByte('\n')
			cnt++
		}
		r := rand.New(rand.NewSource(seedEnv()))
		s := &emulator.System{}
		if err := s.CreateEmulator(); err != nil {
			return err
		}
		steps := 0
		limit := 0
		quiet := false
		hung := false
		// two registration sets of EQUAL size: A = program area + end of SRAM bank $70 (used normally), B = program area +
		// the same offsets in bank $01 (never executed); B is installed for the run before each SRAM-end run, so the set
		// changes between runs without changing its size
		mapB := map[uint32]func(){}
		s.CPU.OnPC = map[uint32]func(){}
		for a := uint32(0x8000); a < 0x708000; a++ {
			if a == 0x8400 {
				a = 0x707FF0
			}
			a := a
			cb := func() {
				// a callback with a visible side effect: it must run equally often with and without a Logger
				s.WRAM[0x1E00+int(a&0xFF)]++
				steps++
				if steps > limit {
					panic(abortRun{})
				}
				if !quiet {
					emit(map[string]interface{}{"k": "cb", "pc": int(a), "all": int(s.CPU.AllCycles)})
				}
			}
			s.CPU.OnPC[a] = cb
			if a >= 0x700000 {
				mapB[a&0xFFFF|0x010000] = cb
			} else {
				mapB[a] = cb
			}
		}
		mapA := s.CPU.OnPC
		s.CPU.OnWDM = func(v byte) {
			if !quiet {
				emit(map[string]interface{}{"k": "wdm", "v": int(v)})
			}
		}
		lostFlag := false
		logWrites, logLimit := 0, 0
		lg := &evLogger{emit: emit, sys: s, lost: &lostFlag, writes: &logWrites, limit: &logLimit}
		for i := 0; i < n; i++ {
			// program at $00:8000 (ROM[0:]), instruction starts recorded
			for j := 0; j < 0x400; j++ {
				s.ROM[j] = 0xEA
			}
			type insT struct {
				b    []byte
				kind int // 0 plain, 1 branch (rel8 to instruction index), 2 jmp abs
				to   int
			}
			var prg []insT
			plen := 4 + r.Intn(20)
			for k := 0; k < plen; k++ {
				switch r.Intn(14) {
				case 0:
					prg = append(prg, insT{b: []byte{0x42, byte(r.Intn(256))}}) // WDM #v
				case 1:
					prg = append(prg, insT{b: []byte{0xE8}})
				case 2:
					prg = append(prg, insT{b: []byte{0xA9, byte(r.Intn(256))}}) // LDA #imm8 (M=1)
				case 3:
					prg = append(prg, insT{b: []byte{0x80, 0}, kind: 1, to: k + 1 + r.Intn(3)}) // BRA forward
				case 4:
					prg = append(prg, insT{b: []byte{0xD0, 0}, kind: 1, to: k - r.Intn(3)}) // BNE backward (may loop, may spin on itself)
				case 5:
					prg = append(prg, insT{b: []byte{0xCA}})
				case 6:
					prg = append(prg, insT{b: []byte{0x4C, 0, 0x80}, kind: 2, to: r.Intn(plen + 1)})
				case 7:
					prg = append(prg, insT{b: []byte{0xDB}}) // STP
				case 8:
					prg = append(prg, insT{b: []byte{0x54, 0x7E, 0x7F}}) // MVN
				case 9:
					prg = append(prg, insT{b: []byte{0x18}})
				case 10:
					prg = append(prg, insT{b: []byte{0xA2, byte(r.Intn(4))}}) // LDX #imm8 (X=1)
				case 11:
					prg = append(prg, insT{b: []byte{0x80, 0xFE}}) // BRA -2: spins on itself
				default:
					prg = append(prg, insT{b: []byte{0xEA}})
				}
			}
			prg = append(prg, insT{b: []byte{0x80, 0xFE}}) // BRA -2: spin until the budget runs out
			var starts []int
			pc := 0
			for _, in := range prg {
				starts = append(starts, 0x8000+pc)
				pc += len(in.b)
			}
			clampI := func(i int) int {
				if i < 0 {
					return 0
				}
				if i >= len(starts) {
					return len(starts) - 1
				}
				return i
			}
			pc = 0
			for i, in := range prg {
				switch in.kind {
				case 1:
					d := starts[clampI(in.to)] - (starts[i] + 2)
					in.b[1] = byte(int8(d))
				case 2:
					t := starts[clampI(in.to)]
					in.b[1], in.b[2] = byte(t), byte(t>>8)
				}
				for _, b := range in.b {
					s.ROM[pc] = b
					pc++
				}
			}
			prog := [][2]int{}
			for j := 0; j < pc+2; j++ {
				prog = append(prog, [2]int{0x8000 + j, int(s.ROM[j])})
			}
			if i%8 == 6 || i == 0 {
				s.CPU.OnPC = mapB
			} else {
				s.CPU.OnPC = mapA
			}
			sramEnd := i%8 == 7
			if sramEnd {
				// a short loop whose last instruction ends exactly at $70:7FFF; $70:8000+ is ROM-less (unmapped) in this System
				tail := []byte{0xE8, 0xEA, 0xCA, 0x80, 0xFB} // INX NOP DEX BRA -5
				copy(s.SRAM[0x8000-len(tail):0x8000], tail)
				for j, b := range tail {
					prog = append(prog, [2]int{0x708000 - len(tail) + j, int(b)})
				}
			}
			// start, target, budget
			start := starts[r.Intn(len(starts))]
			if sramEnd {
				start = 0x707FFB
			}
			var target int
			switch r.Intn(6) {
			case 0:
				target = start // already there
			case 1:
				target = 0x8000 + r.Intn(pc+2) // possibly in the middle of an instruction
			case 2:
				target = 0x9000 // never reached
			default:
				target = starts[r.Intn(len(starts))]
			}
			if r.Intn(12) == 0 {
				target |= (1 + r.Intn(255)) << 24 // no program counter ever equals a target beyond 24 bits
			}
			budget := []int{0, 1, 2, 3, 5, 8, 13, 40, 100, 300, 700}[r.Intn(11)]
			if r.Intn(4) == 0 {
				budget = r.Intn(60)
			}
			a0, ax, all0 := uint16(r.Intn(6)), byte(r.Intn(6)), uint64(r.Intn(100000))
			logging := r.Intn(2) == 0
			type finalT struct {
				Result  bool  `json:"result"`
				Crashed bool  `json:"crashed"`
				Aborted bool  `json:"aborted"`
				St      Arch  `json:"st"`
				All     int   `json:"all"`
				Mem     int64 `json:"mem"`
			}
			var customLogger io.Writer
			runOnce := func(withLogger bool, observe bool) finalT {
				for j := range s.WRAM {
					s.WRAM[j] = byte(j * 13)
				}
				for j := range s.SRAM {
					s.SRAM[j] = byte(j * 7)
				}
				if sramEnd {
					copy(s.SRAM[0x8000-5:0x8000], []byte{0xE8, 0xEA, 0xCA, 0x80, 0xFB})
				}
				s.CPU.Reset()
				s.CPU.E = 0
				s.CPU.SetFlags(0x34)
				s.CPU.RA, s.CPU.RAl, s.CPU.RAh = a0, ax, 0
				s.CPU.RX, s.CPU.RXl, s.CPU.RY, s.CPU.RYl = 3, 3, 0x10, 0x10
				s.CPU.SP = 0x1FF
				s.CPU.AllCycles = all0
				s.SetPC(uint32(start))
				quiet = !observe
				if withLogger {
					if observe && i%2 == 0 {
						s.Logger = lg
					} else if observe {
						s.Logger = &evLoggerRC{evLogger: *lg}
					} else {
						s.Logger = io.Discard
					}
				} else {
					s.Logger = nil
				}
				if customLogger != nil {
					s.Logger = customLogger
				}
				steps, limit = 0, budget+3
				logWrites, logLimit = 0, budget+3
				lostFlag = false
				if observe {
					emit(map[string]interface{}{"k": "begin", "target": target, "budget": budget, "pc": start, "all": int(s.CPU.AllCycles),
						"logging": withLogger, "prog": prog})
				}
				var fin finalT
				done := make(chan struct{})
				go func() {
					defer close(done)
					defer func() {
						if e := recover(); e != nil {
							if _, ok := e.(abortRun); ok {
								fin.Aborted = true
							} else {
								fin.Crashed = true // e.g. an access to an unmapped bus address
							}
						}
					}()
					fin.Result = s.RunUntil(uint32(target), uint64(budget))
				}()
				select {
				case <-done:
				case <-time.After(3 * time.Second):
					// RunUntil does not return (and does not even reach an OnPC callback): report and stop recording --
					// the stuck goroutine cannot be killed, so the remaining runs are skipped
					emit(map[string]interface{}{"k": "abort", "pc": -1, "all": -1, "hung": true})
					emu.Lock()
					muted = true
					emu.Unlock()
					hung = true
					return fin
				}
				fin.St = projPri(&s.CPU)
				fin.All = int(s.CPU.AllCycles)
				var h int64
				for j, b := range s.WRAM {
					h = (h*31 + int64(b) + int64(j&0xFF)) % 2147483629
				}
				for j, b := range s.SRAM {
					h = (h*31 + int64(b) + int64(j&0xFF)) % 2147483629
				}
				fin.Mem = h
				if observe {
					if fin.Crashed {
						emit(map[string]interface{}{"k": "lost"})
					} else if fin.Aborted {
						emit(map[string]interface{}{"k": "abort", "pc": int(s.GetPC()), "all": int(s.CPU.AllCycles)})
					} else {
						emit(map[string]interface{}{"k": "ret", "result": fin.Result, "pc": int(s.GetPC()), "all": int(s.CPU.AllCycles)})
					}
				}
				return fin
			}
			f1 := runOnce(logging, true)
			if hung {
				break
			}
			// the same run with the opposite tracing setting, unobserved: tracing must not perturb execution (C14)
			f2 := runOnce(!logging, false)
			if hung {
				break
			}
			if i%4 == 1 && !f1.Crashed && !f2.Crashed && !f1.Aborted {
				// the trace TEXT must not depend on the kind of Logger: a plain buffer against a small bufio.Writer whose
				// free space shrinks from line to line
				var plain, viaBufio bytes.Buffer
				customLogger = &plain
				runOnce(true, false)
				bw := bufio.NewWriterSize(&viaBufio, 94)
				customLogger = bw
				runOnce(true, false)
				bw.Flush()
				customLogger = nil
				if hung {
					break
				}
				emit(map[string]interface{}{"k": "textpair", "same": bytes.Equal(plain.Bytes(), viaBufio.Bytes()), "len": plain.Len(), "len2": viaBufio.Len()})
			}
			if !f1.Crashed || !f2.Crashed { // both crashing (unmapped access by the program itself) is outside the domain
				wl, wo := f1, f2
				if !logging {
					wl, wo = f2, f1
				}
				emit(map[string]interface{}{"k": "pair", "with": wl, "without": wo})
			}
		}
		w.Flush()
		fmt.Printf("{\"events\": %d, \"runs\": %d}\n", cnt, n)
		return nil
	})
}
