package main

// C11, history part: interleaved reads / writes through mirrored bus addresses of one emulator.System
// and direct stores into its backing arrays, logged for SystemTrace.tla.  Mirror groups are taken from
// the real LoROM mapper: bus addresses it translates to the same FX Pak Pro address.

import (
	"bufio"
	"encoding/json"
	"fmt"
	"math/rand"
	"os"
	"sort"
	"strconv"

	"github.com/alttpo/snes/emulator"
	"github.com/alttpo/snes/mapping/lorom"
)

func init() {
	register("sysseq", func(args []string) error {
		if len(args) < 3 || args[0] != "record" {
			return fmt.Errorf("usage: vh sysseq record <out> <groups>")
		}
		n, _ := strconv.Atoi(args[2])
		f, err := os.Create(args[1])
		if err != nil {
			return err
		}
		defer f.Close()
		w := bufio.NewWriterSize(f, 1<<20)
		defer w.Flush()
		cnt := 0
		emit := func(ev map[string]interface{}) {
			b, _ := json.Marshal(ev)
			w.Write(b)
			w.WriteByte('\n')
			cnt++
		}
		r := rand.New(rand.NewSource(seedEnv()))
		s := &emulator.System{}
		if err := s.CreateEmulator(); err != nil {
			return err
		}
		init0 := func(cls, idx int) byte { return byte((idx*7 + cls*13 + idx/512) % 256) }
		for i := range s.ROM {
			s.ROM[i] = init0(1, i)
		}
		for i := range s.SRAM {
			s.SRAM[i] = init0(2, i)
		}
		for i := range s.WRAM {
			s.WRAM[i] = init0(3, i)
		}
		// bus addresses that the emulator backs with memory AND the mapper translates, grouped by pak address
		type pa struct {
			p, a uint32
		}
		var all []pa
		for a := uint32(0); a < 1<<24; a += 1 {
			if a&0xFF > 3 && a&0xFFFF < 0xFFFC && a&0x1FFF > 3 && a&0x1FFF < 0x1FFC { // thin out: page/bank edges and a few bytes per 256
				continue
			}
			p, err := lorom.BusAddressToPak(a)
			if err != nil {
				continue
			}
			if _, ok := sysRead(s, a); !ok {
				continue
			}
			all = append(all, pa{p, a})
		}
		sort.Slice(all, func(i, j int) bool { return all[i].p < all[j].p || (all[i].p == all[j].p && all[i].a < all[j].a) })
		var groups [][]uint32
		for i := 0; i < len(all); {
			j := i
			for j < len(all) && all[j].p == all[i].p {
				j++
			}
			if j-i >= 2 || (j-i == 1 && (all[i].a&0xFF == 0 || all[i].a&0xFF == 2)) { // mirror groups, plus a sample of unmirrored cells
				g := make([]uint32, 0, j-i)
				for k := i; k < j; k++ {
					g = append(g, all[k].a)
				}
				groups = append(groups, g)
			}
			i = j
		}
		arr := func(cls int) []byte {
			switch cls {
			case 1:
				return s.ROM[:]
			case 2:
				return s.SRAM[:]
			}
			return s.WRAM[:]
		}
		for gi := 0; gi < n; gi++ {
			g := groups[r.Intn(len(groups))]
			p, _ := lorom.BusAddressToPak(g[0])
			cls, idx := 1, int(p)
			if p >= 0xF50000 {
				cls, idx = 3, int(p-0xF50000)
			} else if p >= 0xE00000 {
				cls, idx = 2, int(p-0xE00000)
			}
			pick := func() uint32 { return g[r.Intn(len(g))] }
			if r.Intn(3) == 0 {
				// directed: another backend, then a 24-bit read ending at the cell, then a byte access to the cell
				io := uint32(r.Intn(0x40))<<16 | 0x2100 + uint32(r.Intn(0x100))
				sysRead(s, io)
				emit(map[string]interface{}{"k": "io", "a": io})
				a := pick()
				if a&0xFFFF >= 2 {
					b3 := a - 2
					okAll := true
					for i := uint32(0); i < 3; i++ {
						if _, err := lorom.BusAddressToPak(b3 + i); err != nil {
							okAll = false
						} else if _, ok := sysRead(s, b3+i); !ok {
							okAll = false
						}
					}
					sysRead(s, io)
					if okAll {
						var v uint32
						if guard(func() { v = s.Bus.EaRead24_wrap(byte(b3>>16), uint16(b3)) }) == "" {
							emit(map[string]interface{}{"k": "rd24", "a": b3, "v": []int{int(v & 0xFFFF), int(v >> 16)}})
						} else {
							emit(map[string]interface{}{"k": "rd24", "a": b3, "v": []int{-1, -1}})
						}
					}
				}
				if r.Intn(2) == 0 {
					v := byte(r.Intn(256))
					if sysWrite(s, a, v) {
						emit(map[string]interface{}{"k": "wr", "a": a, "v": int(v)})
					} else {
						emit(map[string]interface{}{"k": "rd", "a": a, "v": -2}) // a write to a backed address failed loudly
					}
				}
				v, ok := sysRead(s, a)
				if !ok {
					v = 0
					emit(map[string]interface{}{"k": "rd", "a": a, "v": -1}) // a read of a backed address failed loudly
				} else {
					emit(map[string]interface{}{"k": "rd", "a": a, "v": int(v)})
				}
			}
			for op := 0; op < 6+r.Intn(8); op++ {
				switch r.Intn(7) {
				case 5: // an access to the hardware register area in between (another backend)
					io := uint32(r.Intn(0x40))<<16 | 0x2100 + uint32(r.Intn(0x100))
					if r.Intn(2) == 0 {
						sysRead(s, io)
					} else {
						sysWrite(s, io, byte(r.Intn(256)))
					}
					emit(map[string]interface{}{"k": "io", "a": io})
				case 6: // 24-bit read (three bytes wrapping inside the bank), as the CPU does for long pointers
					a := pick()
					if r.Intn(2) == 0 && a&0xF >= 2 {
						a -= 2 // the picked address is the third byte
					}
					okAll := true
					for i := uint32(0); i < 3; i++ {
						b := a&0xFF0000 | (a+i)&0xFFFF
						if _, err := lorom.BusAddressToPak(b); err != nil {
							okAll = false
						} else if _, ok := sysRead(s, b); !ok {
							okAll = false
						}
					}
					if okAll {
						var v uint32
						if guard(func() { v = s.Bus.EaRead24_wrap(byte(a>>16), uint16(a)) }) == "" {
							emit(map[string]interface{}{"k": "rd24", "a": a, "v": []int{int(v & 0xFFFF), int(v >> 16)}})
						} else {
							emit(map[string]interface{}{"k": "rd24", "a": a, "v": []int{-1, -1}})
						}
					}
				case 0, 1:
					a := pick()
					v, ok := sysRead(s, a)
					if ok {
						emit(map[string]interface{}{"k": "rd", "a": a, "v": int(v)})
					} else {
						emit(map[string]interface{}{"k": "rd", "a": a, "v": -1}) // was readable when the groups were built
					}
				case 2:
					a, v := pick(), byte(r.Intn(256))
					if sysWrite(s, a, v) {
						emit(map[string]interface{}{"k": "wr", "a": a, "v": int(v)})
					}
					if r.Intn(3) == 0 && idx < len(arr(cls)) {
						// the host changes the cell directly, then the very same store is issued again: it must land again
						w2 := v ^ byte(1+r.Intn(255))
						arr(cls)[idx] = w2
						emit(map[string]interface{}{"k": "poke", "cls": cls, "idx": idx, "v": int(w2)})
						if sysWrite(s, a, v) {
							emit(map[string]interface{}{"k": "wr", "a": a, "v": int(v)})
						}
						emit(map[string]interface{}{"k": "peek", "cls": cls, "idx": idx, "v": int(arr(cls)[idx])})
					}
				case 3:
					if idx < len(arr(cls)) {
						v := byte(r.Intn(256))
						arr(cls)[idx] = v
						emit(map[string]interface{}{"k": "poke", "cls": cls, "idx": idx, "v": int(v)})
					}
				case 4:
					if idx < len(arr(cls)) {
						emit(map[string]interface{}{"k": "peek", "cls": cls, "idx": idx, "v": int(arr(cls)[idx])})
					}
				}
			}
		}
		w.Flush()
		fmt.Printf("{\"events\": %d, \"groups\": %d, \"mirror_groups_available\": %d}\n", cnt, n, len(groups))
		return nil
	})
}
