package main

// C13: random Attach / EaRead / EaWrite / EaDump histories on the REAL bus.Bus with instrumented
// memories, logged for BusTrace.tla.

import (
	"bufio"
	"encoding/json"
	"fmt"
	"math/rand"
	"os"
	"strconv"

	"github.com/alttpo/snes/emulator/bus"
	"github.com/alttpo/snes/emulator/memory"
)

type imem struct {
	id  int
	ov  map[uint32]byte
	acc *[][]int
}

func busF(m int, a uint32) byte {
	return byte((uint32(m)*37 + a*11 + (a>>8)*3 + (a>>16)*5) % 251)
}
func (m *imem) Read(a uint32) byte {
	*m.acc = append(*m.acc, []int{m.id, int(a)})
	if v, ok := m.ov[a]; ok {
		return v
	}
	return busF(m.id, a)
}
func (m *imem) Write(a uint32, v byte) {
	*m.acc = append(*m.acc, []int{m.id, int(a), int(v)})
	m.ov[a] = v
}
func (m *imem) Shutdown()          {}
func (m *imem) Size() uint32       { return 1 << 24 }
func (m *imem) Clear()             {}
func (m *imem) Dump(uint32) []byte { return nil }

var bulkLeft = 6 // bulk-attach repetitions still allowed in this process

func busScenario(r *rand.Rand, emit func(map[string]interface{})) {
	b, _ := bus.New()
	emit(map[string]interface{}{"k": "newbus"})
	var acc [][]int
	mems := make([]*imem, 5)
	for i := 1; i <= 4; i++ {
		mems[i] = &imem{id: i, ov: map[uint32]byte{}, acc: &acc}
	}
	// memories 5 and 6 are the library's own memory.RAM / *memory.ROM over private arrays (filled with the same
	// address pattern the instrumented doubles return); they can only be attached inside their home range
	var realData [7][]byte
	var realHome [7]uint32
	realMem := func(id int) memory.Memory {
		if id == 5 {
			return memory.NewRAM(realData[5], realHome[5])
		}
		return memory.NewROM(realData[6], realHome[6])
	}
	// neighbourhood of interest
	var base uint32
	switch r.Intn(5) {
	case 0:
		base = 0
	case 1:
		base = 0xFFFF00 // top of the address space
	case 2:
		base = uint32(r.Intn(256))<<16 | 0xFF00 // bank end
	default:
		base = uint32(r.Intn(1<<20)) << 4
		if base > 0xFFFD00 {
			base = 0xFFFD00
		}
	}
	for id := 5; id <= 6; id++ {
		realHome[id] = base &^ 0xF
		realData[id] = make([]byte, 0x400)
		for i := range realData[id] {
			realData[id][i] = busF(id, realHome[id]+uint32(i))
		}
	}
	span := uint32(0x100)
	var near func() uint32
	near = func() uint32 {
		a := base + uint32(r.Intn(int(span)))
		if a > 0xFFFFFF {
			a = 0xFFFFFF
		}
		return a
	}
	// sometimes the neighbourhood is "the same offsets in several consecutive banks" (whole-bank attaches)
	multi := r.Intn(5) == 0
	if multi {
		base = uint32(r.Intn(250)) << 16
		nearOld := near
		near = func() uint32 {
			if r.Intn(2) == 0 {
				return base + uint32(r.Intn(4))<<16 + uint32(r.Intn(0x40))<<4 + uint32(r.Intn(16))
			}
			return nearOld()
		}
	}
	nops := 6 + r.Intn(20)
	for op := 0; op < nops; op++ {
		x := r.Intn(11)
		if op < 2 {
			x = 0
		}
		if multi && op == 0 { // one memory over several complete banks
			nb := uint32(2 + r.Intn(3))
			m := 1 + r.Intn(4)
			s0 := base &^ 0xFFFF
			e0 := s0 + nb<<16 - 1 + []uint32{0, 0, 0x10, 0x8000, 0xFFF0}[r.Intn(5)] // whole banks, or a partial last bank
			if e0 > 0xFFFFFF {
				e0 = 0xFFFFFF
			}
			err := b.Attach(mems[m], "m", s0, e0)
			emit(map[string]interface{}{"k": "attach", "m": m, "s": s0, "e": e0, "err": err != nil, "panic": false, "times": 1})
			for _, a := range []uint32{e0 - 0x20, e0 - 1, e0, s0 + 0x10000, s0 + 0x1FFFF} { // reads at the seams of the range
				if a > 0xFFFFFF {
					continue
				}
				a := a
				acc = acc[:0]
				var v byte
				p := guard(func() { v = b.EaRead(a) })
				emit(map[string]interface{}{"k": "read", "a": a, "panic": p != "", "seen": append([][]int{}, acc...), "v": int(v)})
			}
			continue
		}
		switch {
		case x == 10: // 24-bit read wrapping inside the bank (used by the CPU for long pointers)
			a := near()
			if r.Intn(3) == 0 {
				a = a&0xFF0000 | 0xFFFD + uint32(r.Intn(3))
			}
			acc = acc[:0]
			var v uint32
			p := guard(func() { v = b.EaRead24_wrap(byte(a>>16), uint16(a)) })
			emit(map[string]interface{}{"k": "read24", "bank": a >> 16, "addr": a & 0xFFFF, "panic": p != "", "seen": append([][]int{}, acc...),
				"v": []int{int(v & 0xFFFF), int(v >> 16)}})
		case x < 3: // attach
			s := near() &^ 0xF
			nb := uint32(1 + r.Intn(6))
			e := s + nb*16 - 1
			if r.Intn(8) == 0 {
				e = s + uint32(1+r.Intn(4))*0x1000 - 1 // a larger range
			}
			if r.Intn(4) == 0 { // misalign one or both ends
				switch r.Intn(3) {
				case 0:
					s += uint32(1 + r.Intn(15))
				case 1:
					e -= uint32(1 + r.Intn(15))
				default:
					s += 8
					e |= 0xF
				}
			}
			if e > 0xFFFFFF {
				e = 0xFFFFFF
			}
			if s > e {
				s, e = e&^0xF, s|0xF
			}
			m := 1 + r.Intn(4)
			var err error
			var p string
			if !multi && r.Intn(3) == 0 && s >= realHome[5] && e < realHome[5]+0x400 && e >= s {
				m = 5 + r.Intn(2)
				p = guard(func() { err = b.Attach(realMem(m), "real", s, e) })
			} else {
				p = guard(func() { err = b.Attach(mems[m], "m", s, e) })
			}
			times := 1
			if err == nil && p == "" && m <= 4 && bulkLeft > 0 && r.Intn(3) == 0 {
				// the same Attach repeated tens of thousands of times on this bus (routing is unchanged by a repetition)
				times = []int{255, 256, 65534, 65535, 65536, 65540}[r.Intn(6)]
				bulkLeft--
				for i := 1; i < times; i++ {
					b.Attach(mems[m], "m", s, e)
				}
			}
			emit(map[string]interface{}{"k": "attach", "m": m, "s": s, "e": e, "err": err != nil, "panic": p != "", "times": times})
		case x < 5:
			a := near()
			acc = acc[:0]
			var v byte
			p := guard(func() { v = b.EaRead(a) })
			emit(map[string]interface{}{"k": "read", "a": a, "panic": p != "", "seen": append([][]int{}, acc...), "v": int(v)})
		case x < 7:
			a := near()
			v := byte(r.Intn(251))
			acc = acc[:0]
			var before [7][]byte
			for id := 5; id <= 6; id++ {
				before[id] = append([]byte(nil), realData[id]...)
			}
			p := guard(func() { b.EaWrite(a, v) })
			landed := [][]int{}
			for id := 5; id <= 6; id++ {
				for i := range realData[id] {
					if realData[id][i] != before[id][i] {
						landed = append(landed, []int{id, int(realHome[id]) + i, int(realData[id][i])})
					}
				}
			}
			emit(map[string]interface{}{"k": "write", "a": a, "v": int(v), "panic": p != "", "seen": append([][]int{}, acc...), "landed": landed})
		case x == 9 && r.Intn(12) == 0:
			// a dump longer than 64 KiB (offsets that do not fit 16 bits), judged against byte-wise reads of the REAL bus:
			// position i holds what a single read of start+i returns, positions of unattached addresses stay untouched
			s := near()
			n := []int{0xFFFF, 0x10000, 0x10001, 0x10010, 0x20000, 0x12345}[r.Intn(6)]
			if int(s)+n > 1<<24 {
				s = uint32(1<<24 - n)
			}
			e := s + uint32(n) - 1
			buf := make([]byte, n+32)
			for i := range buf {
				buf[i] = 255
			}
			var got int
			p := guard(func() { got = b.EaDump(s, e, buf) })
			mism, first := 0, -1
			for i := 0; i < n; i++ {
				want := byte(255) // untouched
				func() {
					defer func() { recover() }()
					want = b.EaRead(s + uint32(i))
				}()
				if buf[i] != want {
					mism++
					if first < 0 {
						first = i
					}
				}
			}
			for i := n; i < len(buf); i++ {
				if buf[i] != 255 {
					mism++
				}
			}
			emit(map[string]interface{}{"k": "bigdump", "s": s, "e": e, "n": got, "mism": mism, "first": first, "panic": p != ""})
		default:
			s := near()
			e := s + uint32(r.Intn(80))
			if r.Intn(6) == 0 {
				e = s + uint32(r.Intn(0x400))
			}
			if e > 0xFFFFFF {
				e = 0xFFFFFF
			}
			n := int(e-s) + 1
			buf := make([]byte, n+32) // slack so that an overshooting count is observed rather than a crash
			for i := range buf {
				buf[i] = 255
			}
			var got int
			acc = acc[:0]
			p := guard(func() { got = b.EaDump(s, e, buf) })
			data := make([]int, n)
			for i := 0; i < n; i++ {
				data[i] = int(buf[i])
			}
			over := false
			for i := n; i < len(buf); i++ {
				if buf[i] != 255 {
					over = true
				}
			}
			emit(map[string]interface{}{"k": "dump", "s": s, "e": e, "n": got, "data": data, "panic": p != "" || over})
		}
	}
}

func init() {
	register("bus", func(args []string) error {
		if len(args) < 3 || args[0] != "record" {
			return fmt.Errorf("usage: vh bus record <out.ndjson> <scenarios>")
		}
		n, _ := strconv.Atoi(args[2])
		f, err := os.Create(args[1])
		if err != nil {
			return err
		}
		defer f.Close()
		w := bufio.NewWriterSize(f, 1<<20)
		r := rand.New(rand.NewSource(seedEnv()))
		cnt := 0
		emit := func(ev map[string]interface{}) {
			bs, _ := json.Marshal(ev)
			w.Write(bs)
			w.WriteByte('\n')
			cnt++
		}
		for i := 0; i < n; i++ {
			busScenario(r, emit)
		}
		w.Flush()
		fmt.Printf("{\"events\": %d, \"scenarios\": %d}\n", cnt, n)
		return nil
	})
}
