package main

// C01 / C02 / C08 / C12 (and the step events C14 builds on): drives BOTH real interpreters from the
// same architectural state and memory, one Step at a time, and logs one self-contained event per
// step for CpuTrace.tla: {seed, ov, pre, pri:{post,wr,cyc,...}, alt:{...}}.
// Memory = cpuFill(seed, addr) overridden by ov.  The non-authoritative register copies (RA when
// M=1, RAl/RAh when M=0, ...) are loaded with junk wherever junk is reachable.

import (
	"bufio"
	"encoding/json"
	"fmt"
	"math/rand"
	"os"
	"regexp"
	"sort"
	"strconv"
	"strings"

	"github.com/alttpo/snes/emulator/bus"
	"github.com/alttpo/snes/emulator/cpu65c816"
	"github.com/alttpo/snes/emulator/cpualt"
)

type Arch struct {
	C   int `json:"C"`
	X   int `json:"X"`
	Y   int `json:"Y"`
	S   int `json:"S"`
	D   int `json:"D"`
	DBR int `json:"DBR"`
	K   int `json:"K"`
	PC  int `json:"PC"`
	P   int `json:"P"`
	E   int `json:"E"`
	Stp int `json:"stp"`
}

func cpuFill(seed, a uint32) byte {
	return byte((a*31 + (a>>8)*17 + (a>>16)*7 + seed) & 0xFF)
}

// flat 16 MiB memory with write log
type flatMem struct {
	data   []byte
	writes [][2]int
}

func (m *flatMem) Read(a uint32) byte { return m.data[a] }
func (m *flatMem) Write(a uint32, v byte) {
	if int(a) >= len(m.data) { // an address >= 2^24 reached the backend: the Step is recorded as failed (C08), nothing is logged
		panic(fmt.Sprintf("bus address %#x outside the 24-bit space reached the memory backend", a))
	}
	m.writes = append(m.writes, [2]int{int(a), int(v)})
	m.data[a] = v
}
func (m *flatMem) Shutdown()          {}
func (m *flatMem) Size() uint32       { return 1 << 24 }
func (m *flatMem) Clear()             {}
func (m *flatMem) Dump(uint32) []byte { return nil }

type cpuPair struct {
	seed   uint32
	memP   *flatMem
	memA   *flatMem
	pri    *cpu65c816.CPU
	alt    *cpualt.CPU
	dirtyP map[int]bool // addresses differing from Fill in memP (program bytes, writes)
	dirtyA map[int]bool
}

func newPair() *cpuPair {
	p := &cpuPair{memP: &flatMem{data: make([]byte, 1<<24)}, memA: &flatMem{data: make([]byte, 1<<24)},
		dirtyP: map[int]bool{}, dirtyA: map[int]bool{}}
	b, _ := bus.New()
	b.Attach(p.memP, "all", 0, 0xFFFFFF)
	p.pri, _ = cpu65c816.New(b)
	p.alt = &cpualt.CPU{}
	if seedEnv()%2 == 1 {
		// the documented way to derive one CPU from another: the copy must be a fully independent CPU
		tmpl := &cpualt.CPU{}
		tmpl.Init()
		p.alt.InitFrom(tmpl)
	} else {
		p.alt.Init()
	}
	p.alt.Bus.AttachReader(0, 0xFFFFFF, p.memA.Read)
	p.alt.Bus.AttachWriter(0, 0xFFFFFF, p.memA.Write)
	p.reseed(1)
	return p
}

func (p *cpuPair) reseed(seed uint32) {
	p.seed = seed
	for i := range p.memP.data {
		v := cpuFill(seed, uint32(i))
		p.memP.data[i] = v
		p.memA.data[i] = v
	}
	p.dirtyP = map[int]bool{}
	p.dirtyA = map[int]bool{}
}

// restore both memories to Fill
func (p *cpuPair) clean() {
	for a := range p.dirtyP {
		p.memP.data[a] = cpuFill(p.seed, uint32(a))
	}
	for a := range p.dirtyA {
		p.memA.data[a] = cpuFill(p.seed, uint32(a))
	}
	p.dirtyP = map[int]bool{}
	p.dirtyA = map[int]bool{}
}

func (p *cpuPair) poke(a uint32, v byte) {
	p.memP.data[a] = v
	p.memA.data[a] = v
	p.dirtyP[int(a)] = true
	p.dirtyA[int(a)] = true
}

func (p *cpuPair) ov() [][2]int {
	out := make([][2]int, 0, len(p.dirtyP))
	for a := range p.dirtyP {
		out = append(out, [2]int{a, int(p.memP.data[a])})
	}
	sort.Slice(out, func(i, j int) bool { return out[i][0] < out[j][0] })
	return out
}

func projPri(c *cpu65c816.CPU) Arch {
	var a Arch
	if c.M == 1 {
		a.C = int(c.RAh)<<8 | int(c.RAl)
	} else {
		a.C = int(c.RA)
	}
	if c.X == 1 {
		a.X, a.Y = int(c.RXl), int(c.RYl)
	} else {
		a.X, a.Y = int(c.RX), int(c.RY)
	}
	a.S, a.D, a.DBR, a.K, a.PC, a.P, a.E = int(c.SP), int(c.RD), int(c.RDBR), int(c.RK), int(c.PC), int(c.Flags()), int(c.E)
	if c.Stopped {
		a.Stp = 1
	}
	return a
}
func projAlt(c *cpualt.CPU) Arch {
	var a Arch
	if c.M == 1 {
		a.C = int(c.RAh)<<8 | int(c.RAl)
	} else {
		a.C = int(c.RA)
	}
	if c.X == 1 {
		a.X, a.Y = int(c.RXl), int(c.RYl)
	} else {
		a.X, a.Y = int(c.RX), int(c.RY)
	}
	a.S, a.D, a.DBR, a.K, a.PC, a.P, a.E = int(c.SP), int(c.RD), int(c.RDBR), int(c.RK), int(c.PC), int(c.Flags()), int(c.E)
	if c.Stopped {
		a.Stp = 1
	}
	return a
}

// junk: a value for a non-authoritative copy; j chooses it (0 = consistent copy, otherwise random)
func loadPri(c *cpu65c816.CPU, a Arch, r *rand.Rand, all uint64) {
	c.E = 0
	c.M, c.X = 0, 0
	c.SetFlags(byte(a.P))
	c.E = byte(a.E)
	if a.E == 1 {
		c.M, c.X = 1, 1
	}
	if c.M == 1 {
		c.RAl, c.RAh = byte(a.C), byte(a.C>>8)
		c.RA = uint16(r.Intn(65536))
	} else {
		c.RA = uint16(a.C)
		c.RAl, c.RAh = byte(r.Intn(256)), byte(r.Intn(256))
	}
	if c.X == 1 {
		c.RXl, c.RYl = byte(a.X), byte(a.Y)
		c.RX, c.RY = uint16(r.Intn(256)), uint16(r.Intn(256)) // high byte 0: the only junk reachable
	} else {
		c.RX, c.RY = uint16(a.X), uint16(a.Y)
		c.RXl, c.RYl = byte(r.Intn(256)), byte(r.Intn(256))
	}
	c.SP, c.RD, c.RDBR, c.RK, c.PC = uint16(a.S), uint16(a.D), byte(a.DBR), byte(a.K), uint16(a.PC)
	c.Stopped = a.Stp == 1
	c.Interrupt = 0
	c.AllCycles = all
	c.OnPC, c.OnWDM = nil, nil
}
func loadAlt(c *cpualt.CPU, a Arch, r *rand.Rand, all uint64) {
	c.E = 0
	c.M, c.X = 0, 0
	c.SetFlags(byte(a.P))
	c.E = byte(a.E)
	if a.E == 1 {
		c.M, c.X = 1, 1
	}
	if c.M == 1 {
		c.RAl, c.RAh = byte(a.C), byte(a.C>>8)
		c.RA = uint16(r.Intn(65536))
	} else {
		c.RA = uint16(a.C)
		c.RAl, c.RAh = byte(r.Intn(256)), byte(r.Intn(256))
	}
	if c.X == 1 {
		c.RXl, c.RYl = byte(a.X), byte(a.Y)
		c.RX, c.RY = uint16(r.Intn(256)), uint16(r.Intn(256))
	} else {
		c.RX, c.RY = uint16(a.X), uint16(a.Y)
		c.RXl, c.RYl = byte(r.Intn(256)), byte(r.Intn(256))
	}
	c.SP, c.RD, c.RDBR, c.RK, c.PC = uint16(a.S), uint16(a.D), byte(a.DBR), byte(a.K), uint16(a.PC)
	c.Stopped = a.Stp == 1
	c.Interrupt = 0
	c.AllCycles = all
	c.OnPC, c.OnWDM = nil, nil
}

type sideT struct {
	Post    Arch     `json:"post"`
	Wr      [][2]int `json:"wr"`
	Cyc     int      `json:"cyc"`
	All0    int      `json:"all0"`
	All1    int      `json:"all1"`
	Ret     bool     `json:"ret"`
	Stopped bool     `json:"stopped"`
	Panic   bool     `json:"panic"`
	PanicS  string   `json:"panics,omitempty"`
	Wdm     []int    `json:"wdm"` // values passed to the OnWDM callback during this step
}

type lineT struct {
	Ok    bool   `json:"ok"`
	Bank  int    `json:"bank"`
	Addr  int    `json:"addr"`
	Bytes []int  `json:"bytes"`
	Mn    string `json:"mn"`
	Arg   string `json:"arg"` // normalised: lower case, no blanks, "sn" -> "s", "$(" -> "($"
	A     string `json:"A"`
	X     string `json:"X"`
	Y     string `json:"Y"`
	Flags string `json:"flags"`
	Raw   string `json:"raw"`
}

type stepEv struct {
	Line *struct {
		Pri lineT `json:"pri"`
		Alt lineT `json:"alt"`
	} `json:"line,omitempty"`
	Irq  bool     `json:"irq"`
	Tag  string   `json:"tag"`
	Seed int      `json:"seed"`
	Ov   [][2]int `json:"ov"`
	Pre  Arch     `json:"pre"`
	Pri  sideT    `json:"pri"`
	Alt  sideT    `json:"alt"`
}

func (p *cpuPair) stepPri() (s sideT) {
	c := p.pri
	s.All0 = int(c.AllCycles)
	s.Wdm = []int{}
	c.OnWDM = func(v byte) { s.Wdm = append(s.Wdm, int(v)) }
	p.memP.writes = p.memP.writes[:0]
	func() {
		defer func() {
			if e := recover(); e != nil {
				s.Panic, s.PanicS = true, fmt.Sprint(e)
			}
		}()
		s.Cyc, s.Ret = c.Step()
	}()
	s.All1 = int(c.AllCycles)
	s.Stopped = c.Stopped
	s.Post = projPri(c)
	s.Wr = append([][2]int{}, p.memP.writes...)
	for _, w := range s.Wr {
		p.dirtyP[w[0]] = true
	}
	return
}
func (p *cpuPair) stepAlt() (s sideT) {
	c := p.alt
	s.All0 = int(c.AllCycles)
	s.Wdm = []int{}
	c.OnWDM = func(v byte) { s.Wdm = append(s.Wdm, int(v)) }
	p.memA.writes = p.memA.writes[:0]
	func() {
		defer func() {
			if e := recover(); e != nil {
				s.Panic, s.PanicS = true, fmt.Sprint(e)
			}
		}()
		s.Cyc, s.Ret = c.Step()
	}()
	s.All1 = int(c.AllCycles)
	s.Stopped = c.Stopped
	s.Post = projAlt(c)
	s.Wr = append([][2]int{}, p.memA.writes...)
	for _, w := range s.Wr {
		p.dirtyA[w[0]] = true
	}
	return
}

var reTraceCore = regexp.MustCompile(`([0-9a-f]{2}):([0-9a-f]{4})[|│]([0-9a-f ]*?) *[|│]([a-z]{3}) ([^|│\n]*)`)
var reTraceRegs = regexp.MustCompile(`A=([0-9a-f-]{4}) X=([0-9a-f-]{4}) Y=([0-9a-f-]{4})`)
var reTraceFlags = regexp.MustCompile(`(?i) ([n-][v-][m-][x-][d-][i-][z-][c-])(?:[ |\n]|$)`)

func parseTraceLine(raw string) (l lineT) {
	l.Raw = strings.TrimSpace(raw)
	l.Bytes = []int{}
	m := reTraceCore.FindStringSubmatch(raw)
	if m == nil {
		return
	}
	b, _ := strconv.ParseInt(m[1], 16, 32)
	a, _ := strconv.ParseInt(m[2], 16, 32)
	l.Bank, l.Addr = int(b), int(a)
	l.Bytes = []int{}
	for _, h := range strings.Fields(m[3]) {
		v, err := strconv.ParseInt(h, 16, 32)
		if err != nil {
			return
		}
		l.Bytes = append(l.Bytes, int(v))
	}
	l.Mn = m[4]
	arg := strings.ToLower(strings.ReplaceAll(m[5], " ", ""))
	arg = strings.ReplaceAll(arg, "sn", "s")
	arg = strings.ReplaceAll(arg, "$(", "($")
	l.Arg = arg
	if r := reTraceRegs.FindStringSubmatch(raw); r != nil {
		l.A, l.X, l.Y = r[1], r[2], r[3]
	}
	if f := reTraceFlags.FindStringSubmatch(raw); f != nil {
		l.Flags = strings.ToLower(f[1])
	}
	l.Ok = true
	return
}

func (p *cpuPair) traceLines() *struct {
	Pri lineT `json:"pri"`
	Alt lineT `json:"alt"`
} {
	out := &struct {
		Pri lineT `json:"pri"`
		Alt lineT `json:"alt"`
	}{}
	func() {
		defer func() {
			if e := recover(); e != nil {
				out.Pri = lineT{Raw: "panic: " + fmt.Sprint(e), Bytes: []int{}}
			}
		}()
		out.Pri = parseTraceLine(string(p.pri.DisassembleCurrentPC(nil)))
	}()
	func() {
		defer func() {
			if e := recover(); e != nil {
				out.Alt = lineT{Raw: "panic: " + fmt.Sprint(e), Bytes: []int{}}
			}
		}()
		var sb strings.Builder
		p.alt.DisassembleCurrentPC(&sb)
		out.Alt = parseTraceLine(sb.String())
	}()
	return out
}

var corner16 = []int{0, 1, 0xFF, 0x100, 0x7FFF, 0x8000, 0xFFFE, 0xFFFF, 0x00FE, 0x0101, 0xFF00, 0xFFFD, 0xFFFC, 2}
var corner8 = []int{0, 1, 0x7F, 0x80, 0xFE, 0xFF}

func pick16(r *rand.Rand) int {
	if r.Intn(2) == 0 {
		return corner16[r.Intn(len(corner16))]
	}
	return r.Intn(65536)
}
func pickBank(r *rand.Rand, top bool) int {
	if top && r.Intn(2) == 0 {
		return 0xFF
	}
	if r.Intn(3) == 0 {
		return []int{0, 1, 0x7E, 0x7F, 0xFE, 0xFF, 0x80}[r.Intn(7)]
	}
	return r.Intn(256)
}

// a random native (or emulation) state; top biases towards the top of the address space (C08)
func randArch(r *rand.Rand, mode string) Arch {
	top := mode == "top"
	a := Arch{C: pick16(r), X: pick16(r), Y: pick16(r), S: pick16(r), D: pick16(r), DBR: pickBank(r, top), K: pickBank(r, false),
		PC: pick16(r), P: r.Intn(256)}
	if r.Intn(3) != 0 {
		a.PC = 0x200 + r.Intn(0xFC00)
	}
	if mode == "irq" {
		mode = "any"
	}
	if mode != "dec" && mode != "any" {
		a.P &^= 0x08 // binary mode
	}
	if mode == "dec" {
		a.P |= 0x08
		if r.Intn(4) != 0 { // valid BCD accumulator most of the time
			bcd := func() int { return r.Intn(10) | r.Intn(10)<<4 | r.Intn(10)<<8 | r.Intn(10)<<12 }
			a.C = bcd()
		}
	}
	if mode == "any" && r.Intn(2) == 0 {
		a.E = 1
		a.P |= 0x30
		a.S = 0x100 | a.S&0xFF
	}
	if a.P&0x10 != 0 {
		a.X &= 0xFF
		a.Y &= 0xFF
	}
	if r.Intn(20) == 0 {
		a.Stp = 1
	}
	if top {
		if r.Intn(2) == 0 {
			a.X, a.Y = corner16[r.Intn(len(corner16))], corner16[r.Intn(len(corner16))]
			if a.P&0x10 != 0 {
				a.X &= 0xFF
				a.Y &= 0xFF
			}
		}
	}
	return a
}

// does [lo, lo+n) (16-bit wrap inside a bank) overlap the instruction bytes at K:PC..PC+3 ?
func overlapsInstr(a Arch, bank int, lo int, n int) bool {
	if bank != a.K {
		return false
	}
	for i := 0; i < n; i++ {
		x := (lo + i) & 0xFFFF
		for j := 0; j < 4; j++ {
			if x == (a.PC+j)&0xFFFF {
				return true
			}
		}
	}
	return false
}

// single step from a fresh random state; ops = opcode set to draw from
var traceMode bool

func (p *cpuPair) single(r *rand.Rand, op byte, mode string, w *json.Encoder) {
	var a Arch
	for {
		a = randArch(r, mode)
		// domain restriction (DESIGN 7): stack and direct page do not overlap the instruction being executed
		if a.K == 0 && (overlapsInstr(a, 0, a.S-6, 12) || overlapsInstr(a, 0, a.D, 0x102)) {
			continue
		}
		break
	}
	if op == 0xFC && r.Intn(2) == 0 && a.PC > 0x400 {
		a.K = 0
		a.S = 0x100 + r.Intn(0x100)
	}
	p.clean()
	base := uint32(a.K) << 16
	ins := [4]byte{op, byte(r.Intn(256)), byte(r.Intn(256)), byte(r.Intn(256))}
	if r.Intn(3) == 0 {
		ins[1] = byte(corner8[r.Intn(len(corner8))])
		ins[2] = byte(corner8[r.Intn(len(corner8))])
	}
	if mode == "top" && r.Intn(2) == 0 {
		ins[1], ins[2], ins[3] = byte(0xF0+r.Intn(16)), 0xFF, 0xFF
	}
	if mode == "dec" && r.Intn(4) != 0 { // valid BCD immediate
		ins[1] = byte(r.Intn(10) | r.Intn(10)<<4)
		ins[2] = byte(r.Intn(10) | r.Intn(10)<<4)
	}
	if op == 0xFC && a.K == 0 && r.Intn(2) == 0 {
		// JSR (a,X) whose pointer lies in the bytes the instruction itself pushes (an order-of-access corner: the two
		// interpreters must at least agree with each other)
		ptr := (a.S - r.Intn(2) - a.X) & 0xFFFF
		ins[1], ins[2] = byte(ptr), byte(ptr>>8)
	}
	for j := 0; j < 4; j++ {
		p.poke(base|uint32((a.PC+j)&0xFFFF), ins[j])
	}
	all := uint64(r.Intn(1 << 20))
	loadPri(p.pri, a, r, all)
	loadAlt(p.alt, a, r, all)
	ev := stepEv{Tag: mode, Seed: int(p.seed), Ov: p.ov(), Pre: projPri(p.pri)}
	if traceMode {
		ev.Line = p.traceLines()
	}
	if mode == "irq" {
		// interrupts enabled and an IRQ raised on both interpreters before the step
		p.pri.I, p.alt.I = 0, 0
		ev.Pre = projPri(p.pri)
		p.pri.TriggerIRQ()
		p.alt.TriggerIRQ()
		ev.Irq = true
	}
	ev.Pri = p.stepPri()
	ev.Alt = p.stepAlt()
	w.Encode(&ev)
}

// a program executed for up to n steps on both CPUs in lock step.  kind "fill": the program is whatever the
// Fill pattern holds at a random place (consecutive bytes differ by 31 mod 256, so all opcodes occur);
// kind "prog": a short program over an alphabet rich in width switches, stack use and block moves.
var progAlphabet = [][]byte{
	{0xC2, 0x10}, {0xC2, 0x20}, {0xC2, 0x30}, {0xE2, 0x10}, {0xE2, 0x20}, {0xE2, 0x30}, // REP / SEP
	{0x08}, {0x28}, {0x18}, {0x38}, {0xFB}, // PHP PLP CLC SEC XCE
	{0xAA}, {0x8A}, {0x9B}, {0xBB}, {0xA8}, {0x98}, {0xEB}, {0xE8}, {0xC8}, {0xCA}, // TAX TXA TXY TYX TAY TYA XBA INX INY DEX
	{0x48}, {0x68}, {0xDA}, {0xFA}, {0x5A}, {0x7A}, {0x0B}, {0x2B}, {0x8B}, {0xAB}, // PHA PLA PHX PLX PHY PLY PHD PLD PHB PLB
	{0x1B}, {0x3B}, {0x5B}, {0x7B}, {0x9A}, {0xBA}, // TCS TSC TCD TDC TXS TSX
	{0x54, 0x7E, 0x7F}, {0x44, 0x7F, 0x7E}, // MVN MVP
	{0x1A}, {0x3A}, {0x0A}, {0x4A}, {0x2A}, {0x6A}, // INC DEC ASL LSR ROL ROR (accumulator)
	// flag producers followed by flag consumers (lengths independent of M/X): hidden flag state must behave like the flag
	{0x2C, 0x00, 0x30}, {0x2C, 0x02, 0x30}, {0x24, 0x40}, {0x24, 0x42}, {0xC5, 0x40}, {0xE4, 0x42}, {0x65, 0x40}, {0xE5, 0x42}, // BIT CMP CPX ADC SBC
	{0xE6, 0x40}, {0x06, 0x42}, {0xA5, 0x40}, {0x85, 0x44}, {0xB8}, {0xD8}, // INC ASL LDA STA CLV CLD
	{0x10, 0x01}, {0x30, 0x01}, {0x50, 0x01}, {0x70, 0x01}, {0x90, 0x01}, {0xB0, 0x01}, {0xD0, 0x01}, {0xF0, 0x01}, // Bxx +1
	{0x50, 0x00}, {0x70, 0x00}, {0x80, 0x00},
}

func (p *cpuPair) chain(r *rand.Rand, n int, mode string, kind string, w *json.Encoder) int {
	a := randArch(r, mode)
	a.Stp = 0
	a.K = 1 + r.Intn(0x7D)
	a.PC = 0x1000 + r.Intn(0xD000)
	a.S = 0x1F00 + r.Intn(0xFF)
	a.D = []int{0, 0x100, 0x2000, 0x20FF}[r.Intn(4)]
	p.clean()
	if kind == "prog" {
		a.E = 0
		pc := a.PC
		emit := func(bs ...byte) {
			for _, b := range bs {
				p.poke(uint32(a.K)<<16|uint32(pc&0xFFFF), b)
				pc++
			}
		}
		for i := 0; i < n; i++ {
			if r.Intn(8) == 0 { // an immediate load of whatever width is current at that point is not known here:
				emit(0xEA) // NOP keeps the stream aligned
				continue
			}
			ins := progAlphabet[r.Intn(len(progAlphabet))]
			emit(ins...)
		}
		for i := 0; i < 8; i++ {
			emit(0xEA)
		}
		if a.C > 40 && r.Intn(2) == 0 {
			a.C = r.Intn(4) // short block moves
		}
		if r.Intn(6) == 0 {
			// a block move whose destination range runs over its own operand bytes (the opcode is re-executed per byte
			// and must re-read them): MVN dst=K at the start of the program, Y pointing at/before the operands
			base := uint32(a.K) << 16
			src := byte(1 + r.Intn(0x7D))
			p.poke(base|uint32(a.PC&0xFFFF), 0x54)
			p.poke(base|uint32((a.PC+1)&0xFFFF), byte(a.K))
			p.poke(base|uint32((a.PC+2)&0xFFFF), src)
			a.P &^= 0x10 // 16-bit index registers
			a.Y = (a.PC + r.Intn(3)) & 0xFFFF
			a.X = r.Intn(0x10000)
			a.C = 2 + r.Intn(4)
		}
	}
	if kind == "prog" && r.Intn(10) == 0 {
		// a software interrupt whose handler rewrites the interrupt vector and interrupts again: the second dispatch must
		// fetch the vector from memory as it is then (vectors are ordinary bank-0 memory)
		op, vec := byte(0x00), 0xFFE6
		if r.Intn(2) == 0 {
			op, vec = 0x02, 0xFFE4
		}
		h1 := 0x2000 + r.Intn(0x6000)
		h2 := 0xA000 + r.Intn(0x4000)
		base := uint32(a.K) << 16
		p.poke(base|uint32(a.PC&0xFFFF), op)
		p.poke(base|uint32((a.PC+1)&0xFFFF), 0x00)
		p.poke(uint32(vec), byte(h1))
		p.poke(uint32(vec+1), byte(h1>>8))
		prog := []byte{0xC2, 0x20, 0xA9, byte(h2), byte(h2 >> 8), 0x8D, byte(vec), byte(vec >> 8), op, 0x00}
		for i, b := range prog {
			p.poke(uint32(h1+i), b)
		}
		for i := 0; i < 6; i++ {
			p.poke(uint32(h2+i), 0xEA)
		}
		a.DBR = 0
		a.S = 0x1F00 + r.Intn(0xFF)
		a.P &^= 0x08
	}
	all := uint64(r.Intn(1 << 20))
	loadPri(p.pri, a, r, all)
	loadAlt(p.alt, a, r, all)
	cnt := 0
	for i := 0; i < 3*n; i++ {
		pre := projPri(p.pri)
		if pre.E == 1 && mode != "any" {
			break // left native mode (XCE): outside the C01 chain
		}
		ev := stepEv{Tag: kind, Seed: int(p.seed), Ov: p.ov(), Pre: pre}
		if traceMode && projAlt(p.alt) == pre {
			ev.Line = p.traceLines()
		}
		ev.Pri = p.stepPri()
		ev.Alt = p.stepAlt()
		w.Encode(&ev)
		cnt++
		if ev.Pri.Panic || ev.Alt.Panic {
			break
		}
		// keep the pair in lock step: after a divergence the alternative interpreter is re-synchronised
		if ev.Pri.Post != ev.Alt.Post || fmt.Sprint(ev.Pri.Wr) != fmt.Sprint(ev.Alt.Wr) {
			for ad := range p.dirtyA {
				p.memA.data[ad] = cpuFill(p.seed, uint32(ad))
			}
			p.dirtyA = map[int]bool{}
			for ad := range p.dirtyP {
				p.memA.data[ad] = p.memP.data[ad]
				p.dirtyA[ad] = true
			}
			loadAlt(p.alt, ev.Pri.Post, r, p.pri.AllCycles)
		}
		if len(p.dirtyP) > 150 {
			break
		}
	}
	return cnt
}

// replay of pre-states exported by TLC from CpuMC.tla: {seed, ov, pre} per line
func (p *cpuPair) replayFile(in string, enc *json.Encoder, r *rand.Rand) (int, error) {
	f, err := os.Open(in)
	if err != nil {
		return 0, err
	}
	defer f.Close()
	sc := bufio.NewScanner(f)
	sc.Buffer(make([]byte, 1<<20), 1<<24)
	cnt := 0
	for sc.Scan() {
		var x struct {
			Seed int      `json:"seed"`
			Ov   [][2]int `json:"ov"`
			Pre  Arch     `json:"pre"`
		}
		if err := json.Unmarshal(sc.Bytes(), &x); err != nil {
			return cnt, err
		}
		if uint32(x.Seed) != p.seed {
			p.reseed(uint32(x.Seed))
		}
		p.clean()
		for _, o := range x.Ov {
			p.poke(uint32(o[0]), byte(o[1]))
		}
		all := uint64(r.Intn(1 << 20))
		loadPri(p.pri, x.Pre, r, all)
		loadAlt(p.alt, x.Pre, r, all)
		ev := stepEv{Tag: "mc", Seed: int(p.seed), Ov: p.ov(), Pre: projPri(p.pri)}
		if traceMode {
			ev.Line = p.traceLines()
		}
		ev.Pri = p.stepPri()
		ev.Alt = p.stepAlt()
		enc.Encode(&ev)
		cnt++
	}
	return cnt, sc.Err()
}

// replay of short programs exported by TLC from CpuProgMC.tla: {pre, prog:[[bytes]...], steps}; the program is laid
// down contiguously from the start PC (straight-line alphabet) and executed step by step on both interpreters
func (p *cpuPair) progReplayFile(in string, enc *json.Encoder, r *rand.Rand) (int, error) {
	f, err := os.Open(in)
	if err != nil {
		return 0, err
	}
	defer f.Close()
	sc := bufio.NewScanner(f)
	sc.Buffer(make([]byte, 1<<20), 1<<24)
	if p.seed != 5 {
		p.reseed(5) // CpuProgMC.tla's Fill uses seed 5
	}
	cnt := 0
	for sc.Scan() {
		var x struct {
			Pre   Arch    `json:"pre"`
			Prog  [][]int `json:"prog"`
			Steps int     `json:"steps"`
		}
		if err := json.Unmarshal(sc.Bytes(), &x); err != nil {
			return cnt, err
		}
		p.clean()
		pc := x.Pre.PC
		for _, ins := range x.Prog {
			for _, b := range ins {
				p.poke(uint32(x.Pre.K)<<16|uint32(pc&0xFFFF), byte(b))
				pc++
			}
		}
		all := uint64(r.Intn(1 << 20))
		loadPri(p.pri, x.Pre, r, all)
		loadAlt(p.alt, x.Pre, r, all)
		for i := 0; i < x.Steps; i++ {
			ev := stepEv{Tag: "progmc", Seed: int(p.seed), Ov: p.ov(), Pre: projPri(p.pri)}
			if traceMode && projAlt(p.alt) == ev.Pre {
				ev.Line = p.traceLines()
			}
			ev.Pri = p.stepPri()
			ev.Alt = p.stepAlt()
			enc.Encode(&ev)
			cnt++
			if ev.Pri.Panic || ev.Alt.Panic {
				break
			}
			if ev.Pri.Post != ev.Alt.Post || fmt.Sprint(ev.Pri.Wr) != fmt.Sprint(ev.Alt.Wr) {
				for ad := range p.dirtyA {
					p.memA.data[ad] = cpuFill(p.seed, uint32(ad))
				}
				p.dirtyA = map[int]bool{}
				for ad := range p.dirtyP {
					p.memA.data[ad] = p.memP.data[ad]
					p.dirtyA[ad] = true
				}
				loadAlt(p.alt, ev.Pri.Post, r, p.pri.AllCycles)
			}
		}
	}
	return cnt, sc.Err()
}

func init() {
	register("cpu", func(args []string) error {
		if len(args) >= 3 && args[0] == "progreplay" { // vh cpu progreplay <in> <out>
			f, err := os.Create(args[2])
			if err != nil {
				return err
			}
			defer f.Close()
			bw := bufio.NewWriterSize(f, 1<<20)
			defer bw.Flush()
			p := newPair()
			n, err := p.progReplayFile(args[1], json.NewEncoder(bw), rand.New(rand.NewSource(seedEnv())))
			if err != nil {
				return err
			}
			bw.Flush()
			fmt.Printf("{\"events\": %d}\n", n)
			return nil
		}
		if len(args) >= 3 && (args[0] == "replay" || args[0] == "trace-replay") { // vh cpu replay <in> <out>
			traceMode = args[0] == "trace-replay"
			f, err := os.Create(args[2])
			if err != nil {
				return err
			}
			defer f.Close()
			bw := bufio.NewWriterSize(f, 1<<20)
			defer bw.Flush()
			p := newPair()
			n, err := p.replayFile(args[1], json.NewEncoder(bw), rand.New(rand.NewSource(seedEnv())))
			if err != nil {
				return err
			}
			bw.Flush()
			fmt.Printf("{\"events\": %d}\n", n)
			return nil
		}
		// vh cpu record <mode> <out.ndjson> <n>     mode: native | top | dec | any | chain | chainany
		if len(args) < 4 || args[0] != "record" {
			return fmt.Errorf("usage: vh cpu record <mode> <out.ndjson> <n>")
		}
		mode := args[1]
		if strings.HasPrefix(mode, "trace-") { // trace-<mode>: also log what both disassemblers say before each step
			traceMode = true
			mode = mode[len("trace-"):]
		}
		n, _ := strconv.Atoi(args[3])
		f, err := os.Create(args[2])
		if err != nil {
			return err
		}
		defer f.Close()
		bw := bufio.NewWriterSize(f, 1<<20)
		defer bw.Flush()
		enc := json.NewEncoder(bw)
		r := rand.New(rand.NewSource(seedEnv()))
		p := newPair()
		p.reseed(uint32(r.Intn(256)))
		cnt := 0
		switch mode {
		case "chain", "chainany", "prog":
			m := "native"
			if mode == "chainany" {
				m = "any"
			}
			k := "fill"
			if mode == "prog" {
				k = "prog"
			}
			nch := 0
			for cnt < n {
				if nch%20 == 19 {
					p.reseed(uint32(r.Intn(256)))
				}
				nch++
				steps := 48
				if k == "prog" {
					steps = 16
				}
				cnt += p.chain(r, steps, m, k, enc)
			}
		default:
			for i := 0; i < n; i++ {
				if i%5000 == 4999 {
					p.reseed(uint32(r.Intn(256)))
				}
				p.single(r, byte(i%256), mode, enc)
				cnt++
			}
		}
		bw.Flush()
		fmt.Printf("{\"events\": %d}\n", cnt)
		return nil
	})
}
