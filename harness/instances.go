package main

// C18: independent instances.  Each instance (an emulator.System, a cpualt CPU, an asm.Emitter or a
// snes.ROM) runs its own fixed list of operations and yields a digest after every operation.
//   vh inst sched <schedules.json> <out>   TLC-exported interleavings, executed deterministically
//   vh inst free <out> <goroutines>        free-running goroutines (build with -race)
// Observations {run, kind, inst, seq, solo, got} are validated by InstancesTrace.tla.

import (
	"bufio"
	"bytes"
	"encoding/json"
	"fmt"
	"hash/fnv"
	"io"
	"os"
	"os/exec"
	"strconv"
	"sync"

	snes "github.com/alttpo/snes"
	"github.com/alttpo/snes/asm"
	"github.com/alttpo/snes/color15"
	"github.com/alttpo/snes/emulator"
	"github.com/alttpo/snes/emulator/cpualt"
	"github.com/alttpo/snes/mapping/exhirom"
	"github.com/alttpo/snes/mapping/hirom"
	"github.com/alttpo/snes/mapping/lorom"
	"github.com/alttpo/snes/mapping/sa1rom"
)

type instance interface {
	op(k int) int // performs operation k (0-based) and returns a digest of the instance's observable state
	nops() int
	release()
}

func (x *sysInst) release()  { sysPool.Put(x.s) }
func (x *altInst) release()  { altPool.Put(x.c) }
func (x *emitInst) release() {}
func (x *romInst) release()  {}

func digest(parts ...interface{}) int {
	h := fnv.New32a()
	fmt.Fprint(h, parts...)
	return int(h.Sum32() & 0x7FFFFFFF)
}

// ---- emulator.System: a program with block moves between instance-specific banks, hardware register
// accesses, stack use and width switches; one operation = 3 Steps
type sysInst struct {
	s  *emulator.System
	id int
}

var sysPool = sync.Pool{New: func() interface{} { return &emulator.System{} }}

func newSysInst(id int) *sysInst {
	// the 32 MiB System struct is recycled; CreateEmulator builds a fresh CPU, bus routing and register file
	s := sysPool.Get().(*emulator.System)
	s.Logger = nil
	s.CreateEmulator()
	for i := range s.SRAM {
		s.SRAM[i] = 0
	}
	for i := 0; i < 256; i++ {
		s.ROM[i] = 0
	}
	src, dst := byte(0x7E), byte(0x7F)
	if id%2 == 1 {
		src, dst = 0x7F, 0x7E
	}
	reg := byte(id % 3)
	prog := []byte{
		0xC2, 0x30, // REP #$30
		0xA9, byte(4 + id%3), 0x00, // LDA #n   (n+1 bytes are moved, one per Step)
		0xA2, byte(0x10 * id), 0x01, // LDX #
		0xA0, byte(0x20 + id), 0x02, // LDY #
		0x54, dst, src, // MVN: spans several scheduling slots
		0xE2, 0x20, // SEP #$20
		0xA9, byte(0x40 + id), // LDA #
		0x8F, reg, 0x21, 0x00, // STA $002100+id%3   (hardware register file: per System; long form, MVN changed DBR)
		0xAF, 0x00, 0x21, 0x00, 0x8F, 0x00, 0x10, 0x7E, // LDA $002100 ; STA $7E1000
		0xAF, 0x01, 0x21, 0x00, 0x8F, 0x01, 0x10, 0x7E, // LDA $002101 ; STA $7E1001
		0xAF, 0x02, 0x21, 0x00, 0x8F, 0x02, 0x10, 0x7E, // LDA $002102 ; STA $7E1002
		0x48, 0x68, // PHA PLA
		0x80, 0xFE, // BRA -2
	}
	copy(s.ROM[:], prog)
	for i := range s.WRAM {
		s.WRAM[i] = byte(i*7 + id)
	}
	s.CPU.Reset()
	s.CPU.E = 0
	s.CPU.SetFlags(0x04)
	s.CPU.RDBR = 0
	s.SetPC(0x008000)
	return &sysInst{s, id}
}
func (x *sysInst) nops() int { return 24 }
func (x *sysInst) op(k int) int {
	x.s.CPU.Step()
	c := &x.s.CPU
	h := fnv.New32a()
	h.Write(x.s.WRAM[:])
	return digest(projPri(c), c.AllCycles, h.Sum32())
}

// ---- cpualt CPU on private flat memory
type altInst struct {
	c   *cpualt.CPU
	mem []byte
}

var altPool sync.Pool

func newAltInst(id int) *altInst {
	// Init() allocates two million closures: CPUs are recycled and their registers reset by hand
	var c *cpualt.CPU
	if v := altPool.Get(); v != nil {
		c = v.(*cpualt.CPU)
		c.RA, c.RX, c.RY, c.RAl, c.RAh, c.RXl, c.RYl = 0, 0, 0, 0, 0, 0, 0
		c.RD, c.RDBR, c.AllCycles, c.Cycles, c.Stopped, c.Interrupt = 0, 0, 0, 0, false, 0
		c.M, c.X, c.E = 0, 0, 0
		c.OnPC, c.OnWDM = nil, nil
	} else {
		c = &cpualt.CPU{}
		c.Init()
	}
	mem := make([]byte, 1<<17) // banks 0..1
	rd := func(a uint32) byte { return mem[a&0x1FFFF] }
	wr := func(a uint32, v byte) { mem[a&0x1FFFF] = v }
	// only banks $00-$01 are attached: everything above is open bus (the CPU's own last bus value)
	c.Bus.AttachReader(0, 0x01FFFF, rd)
	c.Bus.AttachWriter(0, 0x01FFFF, wr)
	prog := []byte{0xC2, 0x30, 0xA9, byte(2 + id%3), 0x00, 0xA2, byte(id), 0x02, 0xA0, 0x00, 0x03, 0x54, 0x01, 0x00,
		0xE2, 0x30, 0xA9, byte(id), 0x85, 0x10, 0xE6, 0x10, 0xA5, 0x10, 0x48, 0x68,
		0xAF, byte(id), 0x00, 0x40, 0x85, 0x12, // LDA $4000xx (open bus) ; STA $12
		0xAF, 0x34, 0x12, 0x7E, 0x85, 0x13, // LDA $7E1234 (open bus) ; STA $13
		0x80, 0xFE}
	copy(mem[0x8000:], prog)
	for i := 0x200; i < 0x400; i++ {
		mem[i] = byte(i + id)
	}
	c.E = 0
	c.SetFlags(0x04)
	c.RK, c.PC, c.SP = 0, 0x8000, 0x1FF
	return &altInst{c, mem}
}
func (x *altInst) nops() int { return 24 }
func (x *altInst) op(k int) int {
	x.c.Step()
	h := fnv.New32a()
	h.Write(x.mem)
	return digest(projAlt(x.c), x.c.AllCycles, h.Sum32())
}

// ---- asm.Emitter with listing generation: data blocks, labels, finalize, both listings
type emitInst struct {
	e  *asm.Emitter
	id int
}

func newEmitInst(id int) *emitInst {
	return &emitInst{asm.NewEmitter(make([]byte, 4096), true), id}
}
func (x *emitInst) nops() int { return 24 }
func (x *emitInst) op(k int) int {
	e := x.e
	switch k % 12 {
	case 0:
		if k > 0 {
			break
		}
		e.SetBase(uint32(0x8000 + 0x100*x.id))
		e.REP(0x30)
	case 1:
		e.Label(fmt.Sprintf("top%d", k))
		e.REP(0x20)
		e.LDA_imm16_w(uint16(0x1111 * x.id))
	case 2, 5, 8:
		b := make([]byte, 17+k+x.id)
		for i := range b {
			b[i] = byte(i*3 + x.id*29 + k)
		}
		e.EmitBytes(b)
	case 3:
		e.BNE(fmt.Sprintf("top%d", k-2))
		e.Comment(fmt.Sprintf("instance %d", x.id))
	case 4:
		e.JMP_abs(fmt.Sprintf("end%d", k+5))
	case 6:
		e.SEP(0x20)
		e.LDA_imm8_b(byte(x.id))
	case 7:
		e.STA_long(uint32(0x7E0000 + x.id))
		if k == 7 { // a long stretch of short lines: listings of several hundred records
			for i := 0; i < 150; i++ {
				e.NOP()
				if i%3 == 0 {
					e.Comment(fmt.Sprintf("i%d of %d", i, x.id))
				}
			}
		}
	case 9:
		e.Label(fmt.Sprintf("end%d", k))
		e.RTS()
	case 10:
		if k > 12 {
			e.Finalize()
		}
	}
	var t, h bytes.Buffer
	e.WriteTextTo(&t)
	e.WriteHexTo(&h)
	return digest(e.Bytes(), e.PC(), t.String(), h.String())
}

// ---- snes.ROM: header round trips and bus writers
type romInst struct {
	r     *snes.ROM
	id    int
	spent io.Writer // a writer that has been filled exactly to the end of its window and is still held
}

func newRomInst(id int) *romInst {
	c := make([]byte, 0x10000)
	for i := range c {
		c[i] = byte(i*5 + id)
	}
	r, _ := snes.NewROM("x", c)
	return &romInst{r: r, id: id}
}
func (x *romInst) nops() int { return 24 }
func (x *romInst) op(k int) int {
	r := x.r
	switch k % 4 {
	case 0:
		r.Header.NativeVectors.NMI = uint16(0x8000 + k + x.id)
		r.WriteHeader()
	case 1:
		w := r.BusWriter(uint32(0x008100 + 16*k))
		w.Write([]byte{byte(x.id), byte(k), 0xAA})
		w2 := r.BusWriter(0x00FFFC) // does not fit in two writes of 2
		w2.Write([]byte{1, 2})
		w2.Write([]byte{3, 4})
	case 2:
		r.ReadHeader()
		if x.spent == nil {
			x.spent = r.BusWriter(0x01FFF0)
			x.spent.Write(make([]byte, 15)) // $FFF0..$FFFE: exactly up to the window end
		} else {
			n, err := x.spent.Write([]byte{0xEE, byte(x.id)}) // must fail and store nothing, now and later
			return digest(r.Contents, r.Header.HeaderVersion(), n, err)
		}
	case 3:
		rd := r.BusReader(0x018000)
		b := make([]byte, 8)
		rd.Read(b)
		_, err := r.BusReader(0x007000).Read(b)
		return digest(r.Contents, r.Header.HeaderVersion(), b, err, fmt.Sprintf("%v", r.Header))
	}
	return digest(r.Contents, r.Header.HeaderVersion(), fmt.Sprintf("%v", r.Header))
}

// ---- stateless functions hammered alongside (results must equal the solo results)
func statelessDigest(id int) int {
	acc := 0
	for i := 0; i < 2000; i++ {
		a := uint32(i*8191+id*65537) & 0xFFFFFF
		p1, e1 := lorom.BusAddressToPak(a)
		p2, e2 := hirom.PakAddressToBus(a)
		p3, e3 := exhirom.BusAddressToPak(a)
		p4, e4 := sa1rom.PakAddressToBus(a)
		c := color15.Color(a).MulDiv(uint8(i), uint8(i%255+1))
		acc = digest(acc, p1, fmt.Sprint(e1), p2, fmt.Sprint(e2), p3, fmt.Sprint(e3), p4, fmt.Sprint(e4), uint16(c))
	}
	return acc
}

var instKinds = []string{"sys", "alt", "emit", "rom"}

func newInst(kind string, id int) instance {
	switch kind {
	case "sys":
		return newSysInst(id)
	case "alt":
		return newAltInst(id)
	case "emit":
		return newEmitInst(id)
	}
	return newRomInst(id)
}

// an operation of the library that panics is an observation like any other (digest -1), not a harness failure
func safeOp(x instance, k int) (d int) {
	defer func() {
		if r := recover(); r != nil {
			d = -1
		}
	}()
	return x.op(k)
}

func soloRunHere(kind string, id int) []int {
	x := newInst(kind, id)
	out := make([]int, x.nops())
	for k := range out {
		out[k] = safeOp(x, k)
	}
	x.release()
	return out
}

// "the result it produces when run alone": the reference run of an instance happens in a FRESH PROCESS (this binary
// re-executed), so that state the library might keep between objects of one process cannot leak into the reference
func soloRun(kind string, id int) []int {
	out, err := exec.Command(os.Args[0], "inst", "solo1", kind, strconv.Itoa(id)).Output()
	var res []int
	if err != nil || json.Unmarshal(out, &res) != nil {
		panic(fmt.Sprintf("solo reference process for %s %d failed: %v %s", kind, id, err, out))
	}
	return res
}

func statelessSolo(id int) int {
	return soloRun("stateless", id)[0]
}

func init() {
	register("inst", func(args []string) error {
		if len(args) < 3 {
			return fmt.Errorf("usage: vh inst sched <schedules.json> <out> | free <out> <goroutines>")
		}
		var w *bufio.Writer
		cnt := 0
		var mu sync.Mutex
		emit := func(ev map[string]interface{}) {
			b, _ := json.Marshal(ev)
			mu.Lock()
			w.Write(b)
			w.WriteByte('\n')
			cnt++
			mu.Unlock()
		}
		switch args[0] {
		case "solo1": // vh inst solo1 <kind> <id>: one instance alone in this process
			id, _ := strconv.Atoi(args[2])
			var res []int
			if args[1] == "stateless" {
				res = []int{statelessDigest(id)}
			} else {
				res = soloRunHere(args[1], id)
			}
			return json.NewEncoder(os.Stdout).Encode(res)
		case "sched":
			var scheds [][]int
			b, err := os.ReadFile(args[1])
			if err != nil {
				return err
			}
			if err := json.Unmarshal(b, &scheds); err != nil {
				return err
			}
			f, err := os.Create(args[2])
			if err != nil {
				return err
			}
			defer f.Close()
			w = bufio.NewWriterSize(f, 1<<20)
			// kind assignments of the three instances; ids differ so that programs differ
			assigns := [][]string{{"sys", "sys", "sys"}, {"alt", "alt", "alt"}, {"emit", "emit", "emit"}, {"rom", "rom", "rom"},
				{"sys", "emit", "alt"}, {"rom", "sys", "emit"}}
			solo := map[string][]int{}
			for run, sc := range scheds {
				as := assigns[run%len(assigns)]
				insts := make([]instance, 4)
				seq := make([]int, 4)
				burst := 8 // one scheduled slot = up to 8 operations (24 operations per instance in 3 slots)
				for i := 1; i <= 3; i++ {
					insts[i] = newInst(as[i-1], i+3*(run%5))
					key := fmt.Sprint(as[i-1], i+3*(run%5))
					if _, ok := solo[key]; !ok {
						solo[key] = soloRun(as[i-1], i+3*(run%5))
					}
				}
				for _, i := range sc {
					for b := 0; b < burst && seq[i] < insts[i].nops(); b++ {
						got := safeOp(insts[i], seq[i])
						key := fmt.Sprint(as[i-1], i+3*(run%5))
						emit(map[string]interface{}{"k": "obs", "run": run, "kind": as[i-1], "inst": i, "seq": seq[i] + 1,
							"solo": solo[key][seq[i]], "got": got, "mode": "sched"})
						seq[i]++
					}
				}
				for i := 1; i <= 3; i++ {
					insts[i].release()
				}
			}
			w.Flush()
			fmt.Printf("{\"events\": %d, \"schedules\": %d}\n", cnt, len(scheds))
			return nil
		case "free":
			g, _ := strconv.Atoi(args[2])
			f, err := os.Create(args[1])
			if err != nil {
				return err
			}
			defer f.Close()
			w = bufio.NewWriterSize(f, 1<<20)
			// solo results first (sequentially), then all goroutines at once
			type job struct {
				kind string
				id   int
				solo []int
			}
			var jobs []job
			for i := 0; i < g; i++ {
				kind := instKinds[i%len(instKinds)]
				id := 1 + i/len(instKinds)%7
				jobs = append(jobs, job{kind, id, soloRun(kind, id)})
			}
			stSolo := statelessSolo(1)
			var wg sync.WaitGroup
			start := make(chan struct{})
			for gi, j := range jobs {
				wg.Add(1)
				go func(gi int, j job) {
					defer wg.Done()
					<-start
					for rep := 0; rep < 3; rep++ {
						x := newInst(j.kind, j.id)
						for k := 0; k < x.nops(); k++ {
							got := safeOp(x, k)
							emit(map[string]interface{}{"k": "obs", "run": gi*10 + rep, "kind": j.kind, "inst": j.id, "seq": k + 1,
								"solo": j.solo[k], "got": got, "mode": "free"})
						}
						x.release()
					}
					if gi%4 == 0 {
						emit(map[string]interface{}{"k": "obs", "run": gi, "kind": "stateless", "inst": 1, "seq": 1,
							"solo": stSolo, "got": statelessDigest(1), "mode": "free"})
					}
				}(gi, j)
			}
			close(start)
			wg.Wait()
			w.Flush()
			fmt.Printf("{\"events\": %d, \"goroutines\": %d}\n", cnt, g)
			return nil
		}
		return fmt.Errorf("unknown inst sub-command")
	})
}
