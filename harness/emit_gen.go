package main

// Seeded random scenario generators for the Emitter family.  They only choose WHICH calls to make;
// what the calls must do is decided by TLC against Emitter.tla.

import (
	"math/rand"
	"reflect"
	"strings"

	"github.com/alttpo/snes/asm"
)

var u8Corners = []int{0, 1, 0x7F, 0x80, 0xFF, 0x10, 0x20, 0x30}
var u16Corners = []int{0, 1, 0xFF, 0x100, 0x7FFF, 0x8000, 0xFFFF, 0x00FF}

func pickU8(r *rand.Rand) int {
	if r.Intn(2) == 0 {
		return u8Corners[r.Intn(len(u8Corners))]
	}
	return r.Intn(256)
}
func pickU16(r *rand.Rand) int {
	if r.Intn(2) == 0 {
		return u16Corners[r.Intn(len(u16Corners))]
	}
	return r.Intn(65536)
}

var labelPool = []string{"L0", "L1", "L2", "L3", "L4", "L5", ""} // (the empty string is a legal label name)

var notStraight = map[string]bool{
	"JSR_abs": true, "JSL": true, "JSL_lhb": true, "JML": true, "RTS": true, "RTL": true, "RTI": true, "PLP": true,
	"JMP_abs": true, "JMP_abs_imm16_w": true, "JMP_indirect": true, "STP": true,
}

// arguments for an instruction method, from its real Go signature
func randArgs(r *rand.Rand, name string, straight bool) []interface{} {
	mt := reflect.TypeOf(&asm.Emitter{})
	m, _ := mt.MethodByName(name)
	var a []interface{}
	for i := 1; i < m.Type.NumIn(); i++ {
		pt := m.Type.In(i)
		switch pt.Kind() {
		case reflect.String:
			a = append(a, labelPool[r.Intn(len(labelPool))])
		case reflect.Uint32:
			hi := r.Intn(256)
			if r.Intn(4) == 0 {
				hi = 0 // bank $00 operands (while the program itself sits in another bank)
			} else if r.Intn(6) == 0 {
				hi = 0x100 + r.Intn(0x7E00) // bits above 24 must be ignored (kept below 2^31 for TLC)
			}
			a = append(a, pickU16(r), hi)
		case reflect.Uint16:
			a = append(a, pickU16(r))
		case reflect.Int8:
			if straight {
				a = append(a, 0)
			} else {
				a = append(a, pickU8(r))
			}
		default:
			if pt.Name() == "Flags" {
				if r.Intn(4) == 0 {
					a = append(a, []int{0x01, 0xC0, 0xFF, 0x00, 0x08}[r.Intn(5)])
				} else {
					a = append(a, []int{0x10, 0x20, 0x30}[r.Intn(3)])
				}
			} else {
				a = append(a, pickU8(r))
			}
		}
	}
	if a == nil {
		a = []interface{}{}
	}
	return a
}

func dataBlock(r *rand.Rand) []interface{} {
	var n int
	switch r.Intn(5) {
	case 0:
		n = []int{0, 1, 15, 16, 17, 32, 33, 48, 64}[r.Intn(9)]
	case 1:
		n = 124 + r.Intn(7) // branch-range boundaries
	default:
		n = r.Intn(40)
	}
	a := make([]interface{}, n)
	zero := r.Intn(6) == 0 // an all-zero block (reserved space) is data like any other
	for i := range a {
		a[i] = r.Intn(256)
		if zero {
			a[i] = 0
		}
	}
	return a
}

func commentText(r *rand.Rand) string {
	n := r.Intn(30)
	switch r.Intn(12) {
	case 0:
		n = 100 + r.Intn(200)
	case 1:
		n = 240 + r.Intn(800)
	}
	const alpha = "abc xyz 0123 qrs"
	var sb strings.Builder
	sb.WriteByte('c')
	for i := 1; i < n; i++ {
		sb.WriteByte(alpha[r.Intn(len(alpha))])
	}
	if n == 0 {
		return ""
	}
	return sb.String()
}

func measure(calls []callT, gen bool) int {
	e := newEmitter(-1, gen)
	for _, c := range calls {
		switch c.M {
		case "Clone", "Append", "State", "Finalize", "Hex", "Text", "Cpu":
		default:
			invoke(e, c)
		}
	}
	return int(e.PC() - e.GetBase())
}

var decodeCounter int

// one instruction method per scenario (cycling through all of them), under random legal widths
func decodeScenario(r *rand.Rand) scenarioT {
	methods := emitMethods()
	m := methods[decodeCounter%len(methods)]
	decodeCounter++
	sc := scenarioT{Cap: 16, Gen: r.Intn(2) == 0}
	add := func(mm string, a ...interface{}) {
		if a == nil {
			a = []interface{}{}
		}
		sc.Calls = append(sc.Calls, callT{mm, a})
	}
	// random widths first, then force the one the method needs (3 of 4 times)
	add("AssumeSEP", []int{0x00, 0x10, 0x20, 0x30}[r.Intn(4)])
	if r.Intn(4) != 0 {
		isX := strings.HasPrefix(m, "CPY") || strings.HasPrefix(m, "LDX") || strings.HasPrefix(m, "LDY")
		bit := 0x20
		if isX {
			bit = 0x10
		}
		switch {
		case strings.Contains(m, "imm8") && strings.HasSuffix(m, "_b"):
			add("AssumeSEP", bit)
		case strings.Contains(m, "imm16"):
			add("AssumeREP", bit)
		}
	}
	switch r.Intn(4) {
	case 0:
		add("SetBase", 0x8000)
	case 1:
		add("SetBase", (r.Intn(0x7E)<<16)+0xFFFC+r.Intn(4)) // the instruction sits at the very end of a bank
	}
	add(m, randArgs(r, m, false)...)
	add("Decode")
	return sc
}

// compact, reference-dense programs that Finalize resolves: few labels, many references of both kinds to each (more
// than any small per-label table holds), every label defined exactly once at a random place, everything within branch
// range; optionally split into Clone/Append with references on both sides of the split
func labelScenario(r *rand.Rand) scenarioT {
	sc := scenarioT{Gen: r.Intn(10) < 7}
	nl := 1 + r.Intn(4)
	names := append([]string(nil), labelPool...)
	r.Shuffle(len(names), func(i, j int) { names[i], names[j] = names[j], names[i] })
	names = names[:nl]
	var calls []callT
	add := func(m string, a ...interface{}) {
		if a == nil {
			a = []interface{}{}
		}
		calls = append(calls, callT{m, a})
	}
	if r.Intn(2) == 0 {
		add("SetBase", []int{0x8000, 0x7E2000, 0x1F8000, 0x00FF00, 0}[r.Intn(5)])
	}
	n := 6 + r.Intn(30)
	size := 0
	for i := 0; i < n && size < 110; i++ {
		switch x := r.Intn(10); {
		case x < 6:
			lm := []string{"BNE", "BEQ", "BPL", "BMI", "BCC", "BCS", "BRA", "JMP_abs"}
			m := lm[r.Intn(len(lm))]
			l := names[r.Intn(len(names))]
			if r.Intn(3) == 0 {
				l = names[0] // one label collects many references
			}
			add(m, l)
			size += 2
			if m == "JMP_abs" {
				size++
			}
		case x < 8:
			add([]string{"NOP", "CLC", "DEY", "TAX", "DEX"}[r.Intn(5)])
			size++
		case x < 9:
			b := make([]interface{}, 1+r.Intn(4))
			for j := range b {
				b[j] = r.Intn(256)
			}
			calls = append(calls, callT{"EmitBytes", b})
			size += len(b)
		default:
			add("Comment", commentText(r))
		}
	}
	// define every label once, at random positions after the optional SetBase
	first := 0
	if len(calls) > 0 && calls[0].M == "SetBase" {
		first = 1
	}
	for _, l := range names {
		at := first + r.Intn(len(calls)-first+1)
		calls = append(calls[:at], append([]callT{{"Label", []interface{}{l}}}, calls[at:]...)...)
	}
	if r.Intn(2) == 0 {
		split := first + r.Intn(len(calls)-first+1)
		app := split + r.Intn(len(calls)-split+1)
		var nc []callT
		nc = append(nc, calls[:split]...)
		nc = append(nc, callT{"Clone", []interface{}{1 << 12}})
		if app-split >= 2 && r.Intn(3) == 0 { // a nested split: the clone is cloned in turn
			s2 := split + r.Intn(app-split+1)
			a2 := s2 + r.Intn(app-s2+1)
			nc = append(nc, calls[split:s2]...)
			nc = append(nc, callT{"Clone", []interface{}{1 << 12}})
			nc = append(nc, calls[s2:a2]...)
			nc = append(nc, callT{"Append", []interface{}{}})
			nc = append(nc, calls[a2:app]...)
		} else {
			nc = append(nc, calls[split:app]...)
		}
		nc = append(nc, callT{"Append", []interface{}{}})
		nc = append(nc, calls[app:]...)
		calls = nc
	} else {
		sc.Dry = r.Intn(3) == 0
	}
	sc.Cap = measure(calls, sc.Gen) + r.Intn(3)
	if r.Intn(4) == 0 {
		calls = append(calls, callT{"Hex", []interface{}{}})
	}
	calls = append(calls, callT{"Finalize", []interface{}{}})
	if r.Intn(3) == 0 {
		calls = append(calls, callT{"Finalize", []interface{}{}})
	}
	calls = append(calls, callT{"Hex", []interface{}{}}, callT{"Text", []interface{}{}})
	sc.Calls = calls
	return sc
}

func randomScenario(r *rand.Rand, profile string) scenarioT {
	if profile == "decode" {
		return decodeScenario(r)
	}
	if profile == "labels" {
		return labelScenario(r)
	}
	if profile == "farlist" {
		// a program longer than 64 KiB with instructions behind the big block: listing offsets do not fit 16 bits
		sc := scenarioT{Gen: true}
		n := 0x10000 - 8 + r.Intn(24)
		blk := make([]interface{}, n)
		for i := range blk {
			blk[i] = (i*5 + 17) & 0xFF
		}
		calls := []callT{{"SetBase", []interface{}{(1 + r.Intn(0x7C)) << 16}}, {"NOP", []interface{}{}}, {"EmitBytes", blk},
			{"SEP", []interface{}{0x30}}, {"LDA_imm8_b", []interface{}{0x42}}, {"RTS", []interface{}{}}}
		sc.Cap = n + 16
		sc.Calls = calls
		return sc
	}
	if profile == "far" {
		// branches whose label is almost a whole bank away (distances that wrap to a small value in 16-bit arithmetic)
		sc := scenarioT{Gen: false}
		n := 65536 - 130 + r.Intn(133)
		blk := make([]interface{}, n)
		for i := range blk {
			blk[i] = (i*7 + 1) & 0xFF
		}
		lm := []string{"BNE", "BRA", "BCC"}[r.Intn(3)]
		calls := []callT{{"SetBase", []interface{}{(1 + r.Intn(0x7D)) << 16}}}
		if r.Intn(2) == 0 {
			calls = append(calls, callT{lm, []interface{}{"L0"}}, callT{"EmitBytes", blk}, callT{"Label", []interface{}{"L0"}})
		} else {
			calls = append(calls, callT{"Label", []interface{}{"L0"}}, callT{"EmitBytes", blk}, callT{lm, []interface{}{"L0"}})
		}
		calls = append(calls, callT{"Finalize", []interface{}{}})
		sc.Cap = n + 2
		sc.Calls = calls
		return sc
	}
	methods := emitMethods()
	sc := scenarioT{Gen: r.Intn(10) < 7}
	var calls []callT
	add := func(m string, a ...interface{}) {
		if a == nil {
			a = []interface{}{}
		}
		calls = append(calls, callT{m, a})
	}
	straight := profile == "straight"

	// leading width assumptions and base
	for i := r.Intn(3); i > 0; i-- {
		m := "AssumeSEP"
		if r.Intn(2) == 0 {
			m = "AssumeREP"
		}
		add(m, []int{0x10, 0x20, 0x30}[r.Intn(3)])
	}
	// labels and comments may precede the base directive
	if !straight && r.Intn(6) == 0 {
		add("Comment", commentText(r))
	}
	if !straight && r.Intn(8) == 0 {
		add("Label", labelPool[r.Intn(len(labelPool))])
	}
	baseAt := -1
	if r.Intn(2) == 0 {
		bases := []int{0x8000, 0x008000 + r.Intn(0x4000), 0x1F8000, 0x7E2000, 0x00E000, 0, 0}
		baseAt = len(calls)
		add("SetBase", bases[r.Intn(len(bases))])
	}
	n := 4 + r.Intn(40)
	if profile == "big" {
		n = 100 + r.Intn(300)
	}
	total := 0
	for i := 0; i < n && total < 6000; i++ {
		x := r.Intn(100)
		switch {
		case straight && x < 85, !straight && x < 50:
			var m string
			for {
				m = methods[r.Intn(len(methods))]
				if straight && (notStraight[m] || isLabelMethod(m)) {
					continue
				}
				break
			}
			// make guarded immediates legal most of the time
			if r.Intn(4) != 0 {
				switch {
				case strings.Contains(m, "imm8") && strings.HasSuffix(m, "_b"):
					if strings.HasPrefix(m, "CPY") || strings.HasPrefix(m, "LDX") || strings.HasPrefix(m, "LDY") {
						add("SEP", 0x10)
					} else {
						add("SEP", 0x20)
					}
				case strings.Contains(m, "imm16"):
					if strings.HasPrefix(m, "LDX") || strings.HasPrefix(m, "LDY") {
						add("REP", 0x10)
					} else {
						add("REP", 0x20)
					}
				}
			}
			add(m, randArgs(r, m, straight)...)
			total += 4
		case straight:
			add("Comment", commentText(r))
		case x < 60:
			add("Label", labelPool[r.Intn(len(labelPool))])
		case x < 72:
			b := dataBlock(r)
			calls = append(calls, callT{"EmitBytes", b})
			total += len(b)
		case x < 82:
			add("Comment", commentText(r))
		case x < 86:
			m := "AssumeSEP"
			if r.Intn(2) == 0 {
				m = "AssumeREP"
			}
			add(m, []int{0x10, 0x20, 0x30}[r.Intn(3)])
		case x < 90:
			if r.Intn(2) == 0 {
				add("Hex")
			} else {
				add("Text")
			}
		default:
			lm := []string{"BNE", "BEQ", "BPL", "BMI", "BCC", "BCS", "BRA", "JMP_abs"}
			add(lm[r.Intn(len(lm))], labelPool[r.Intn(len(labelPool))])
			total += 3
		}
	}
	if profile == "rebase" {
		// SetBase again after code has been emitted: outside the domain of Finalize and the listings, but emission,
		// Len/PC advance and capacity handling must be unaffected
		var nc []callT
		for _, c := range calls {
			if c.M == "Hex" || c.M == "Text" || isLabelMethod(c.M) || c.M == "Label" {
				continue
			}
			nc = append(nc, c)
			if r.Intn(9) == 0 {
				nc = append(nc, callT{"SetBase", []interface{}{[]int{0x7E2000, 0x018000, 0x8000, 0, 0x10FFF0}[r.Intn(5)]}})
			}
		}
		sc.Calls = nc
		size := 0
		e := newEmitter(-1, sc.Gen)
		for _, c := range nc { // the dry-run PC restarts at every SetBase: sum the pieces
			before := e.PC()
			invoke(e, c)
			if c.M != "SetBase" && e.PC() > before {
				size += int(e.PC() - before)
			}
		}
		switch r.Intn(4) {
		case 0:
			sc.Cap = size
		case 1:
			sc.Cap = size - 1 - r.Intn(4)
		case 2:
			sc.Cap = r.Intn(size + 1)
		default:
			sc.Cap = size + 8
		}
		if sc.Cap < 0 {
			sc.Cap = 0
		}
		sc.Dry = r.Intn(2) == 0
		return sc
	}
	if straight {
		sc.Cap = 1 << 16
		if r.Intn(6) == 0 { // a buffer that ends inside the program: the tail must be refused, not silently dropped
			if size := measure(calls, sc.Gen); size > 4 {
				sc.Cap = size - 1 - r.Intn(4)
			}
		}
		add("Cpu")
		sc.Calls = calls
		return sc
	}

	// clone / append
	withClone := r.Intn(10) < 4
	if withClone {
		split := r.Intn(len(calls) + 1)
		app := split + r.Intn(len(calls)-split+1)
		var nc []callT
		nc = append(nc, calls[:split]...)
		nc = append(nc, callT{"Clone", []interface{}{1 << 16}})
		if app-split >= 2 && r.Intn(4) == 0 { // a nested split: the clone is cloned in turn
			s2 := split + r.Intn(app-split+1)
			a2 := s2 + r.Intn(app-s2+1)
			nc = append(nc, calls[split:s2]...)
			nc = append(nc, callT{"Clone", []interface{}{1 << 16}})
			nc = append(nc, calls[s2:a2]...)
			nc = append(nc, callT{"Append", []interface{}{}})
			nc = append(nc, calls[a2:app]...)
		} else {
			nc = append(nc, calls[split:app]...)
		}
		nc = append(nc, callT{"Append", []interface{}{}})
		nc = append(nc, calls[app:]...)
		calls = nc
	} else {
		sc.Dry = r.Intn(10) < 4
	}
	// defining every referenced label at the end makes Finalize succeed more often
	if r.Intn(3) != 0 {
		for _, l := range labelPool {
			if r.Intn(4) != 0 {
				calls = append(calls, callT{"Label", []interface{}{l}})
			}
		}
	}
	// capacity: measured with a real dry-run emitter, then exact / a few bytes short / tiny / generous
	size := measure(calls, sc.Gen)
	// sometimes the program is placed so that it ends exactly at (or a few bytes before) the end of its bank
	if baseAt >= 0 { // Clone/Append may have been inserted before it
		baseAt = -1
		for i, c := range calls {
			if c.M == "SetBase" {
				baseAt = i
				break
			}
		}
	}
	if baseAt >= 0 && size > 0 && size < 0x8000 && r.Intn(5) == 0 {
		calls[baseAt].A = []interface{}{(1+r.Intn(0x7D))<<16 + 0x10000 - size - []int{0, 0, 1, 3}[r.Intn(4)]}
	}
	// ... or so that it runs ACROSS a bank boundary (addresses are linear 24-bit values for the listings; programs with
	// label references stay inside one bank, the domain of Finalize)
	if baseAt >= 0 && size > 20 && size < 0x8000 && r.Intn(6) == 0 {
		hasRef := false
		for _, c := range calls {
			if c.M != "Label" && c.M != "Comment" && isLabelMethod(c.M) {
				hasRef = true
			}
		}
		if !hasRef {
			calls[baseAt].A = []interface{}{(1+r.Intn(0x7D))<<16 + 0x10000 - 1 - r.Intn(size-1)}
		}
	}
	switch r.Intn(10) {
	case 0:
		sc.Cap = size
	case 1:
		sc.Cap = size - 1 - r.Intn(3)
	case 2:
		sc.Cap = r.Intn(size + 1)
	case 3:
		sc.Cap = size - r.Intn(20)
	default:
		sc.Cap = size + 16 + r.Intn(64)
	}
	if sc.Cap < 0 {
		sc.Cap = 0
	}
	if withClone && r.Intn(8) == 0 { // nil-target original and clone
		sc.Cap = -1
		for i := range calls {
			if calls[i].M == "Clone" {
				calls[i].A = []interface{}{-1}
			}
		}
	}
	// listings and Finalize at the end (never on a nil-target emitter)
	if sc.Cap >= 0 {
		if r.Intn(3) == 0 {
			calls = append(calls, callT{"Hex", []interface{}{}})
		}
		if r.Intn(5) != 0 {
			calls = append(calls, callT{"Finalize", []interface{}{}})
			if r.Intn(2) == 0 {
				calls = append(calls, callT{"Finalize", []interface{}{}})
			}
		}
		calls = append(calls, callT{"Hex", []interface{}{}}, callT{"Text", []interface{}{}})
	} else {
		// drop listing requests that were generated in the body
		var nc []callT
		for _, c := range calls {
			if c.M != "Hex" && c.M != "Text" {
				nc = append(nc, c)
			}
		}
		calls = nc
	}
	sc.Calls = calls
	return sc
}

func isLabelMethod(m string) bool {
	mt := reflect.TypeOf(&asm.Emitter{})
	mm, ok := mt.MethodByName(m)
	if !ok { // pseudo-calls of the scenario language (Clone, Append, Hex, ...)
		return false
	}
	return mm.Type.NumIn() == 2 && mm.Type.In(1).Kind() == reflect.String
}
