package main

// Black-box probe of emulator.System's memory map (C11): which backing array and which index
// every bus address reads from and writes to.  No hooks: the three exported arrays are filled
// with position-revealing patterns and the bus is exercised through Bus.EaRead / Bus.EaWrite.

import (
	"bytes"
	"fmt"

	"github.com/alttpo/snes/emulator"
	"github.com/alttpo/snes/emulator/memory"
	"github.com/alttpo/snes/mapping/lorom"
)

const (
	clsNone = iota
	clsROM
	clsSRAM
	clsWRAM
	clsHWIO
)

var clsName = []string{"none", "ROM", "SRAM", "WRAM", "HWIO"}

func sysRead(s *emulator.System, a uint32) (v byte, ok bool) {
	defer func() {
		if e := recover(); e != nil {
			ok = false
		}
	}()
	return s.Bus.EaRead(a), true
}

func sysWrite(s *emulator.System, a uint32, v byte) (ok bool) {
	defer func() {
		if e := recover(); e != nil {
			ok = false
		}
	}()
	s.Bus.EaWrite(a, v)
	return true
}

func fillArrays(s *emulator.System, f func(cls int, i int) byte) {
	for i := range s.ROM {
		s.ROM[i] = f(clsROM, i)
	}
	for i := range s.SRAM {
		s.SRAM[i] = f(clsSRAM, i)
	}
	for i := range s.WRAM {
		s.WRAM[i] = f(clsWRAM, i)
	}
}

func arrOf(s *emulator.System, cls int) []byte {
	switch cls {
	case clsROM:
		return s.ROM[:]
	case clsSRAM:
		return s.SRAM[:]
	case clsWRAM:
		return s.WRAM[:]
	}
	return nil
}

// probeSystem returns the read and write page tables (tables 8 and 9) and a summary.
// variant "": a fresh System.  variant "sysheader": the history a front end produces -- a ROM image with a
// checksum-valid LoROM header (declaring 8 KiB of SRAM) is loaded BEFORE CreateEmulator, a device is temporarily
// attached over ROM, SRAM and WRAM segments, the System is copied by value, and the copy is re-created and probed:
// its map must be the LoROM map onto ITS OWN arrays, whatever the image declares.
func probeSystem(is *issues, variant string) (rd, wr []pageLine, info map[string]interface{}) {
	info = map[string]interface{}{"variant": variant}
	s := &emulator.System{}
	if variant == "sysheader" {
		base := &emulator.System{}
		for i := range base.ROM {
			base.ROM[i] = byte(i*3 + 1)
		}
		h := base.ROM[0x7FB0:0x8000]
		copy(h[0x10:0x25], []byte("VERIF TEST IMAGE     "))
		h[0x25], h[0x26], h[0x27], h[0x28] = 0x20, 0x02, 0x0A, 0x03 // LoROM, ROM+RAM+battery, 1 MiB, 8 KiB SRAM
		h[0x2A] = 0x33
		h[0x2C], h[0x2D], h[0x2E], h[0x2F] = 0x34, 0x12, 0xCB, 0xED // complement, checksum: sum $FFFF
		if err := base.CreateEmulator(); err != nil {
			is.add("system_create", "system", "", 0, err.Error())
			return
		}
		dev := &memory.FakeHW{}
		for _, a := range []uint32{0x008000, 0x700000, 0x7E0000, 0x000000} {
			base.Bus.Attach(dev, "overlay", a, a+0x0F)
		}
		*s = *base
	}
	if err := s.CreateEmulator(); err != nil {
		is.add("system_create", "system", "", 0, err.Error())
		return
	}
	const N = 1 << 24
	cls := make([]uint8, N)
	cell := make([]uint32, N)
	ok := make([]bool, N)

	// pass 0: class markers (FakeHW state stays zero => class 0 = HWIO or other)
	fillArrays(s, func(c int, i int) byte { return byte(c) })
	for a := uint32(0); a < N; a++ {
		v, o := sysRead(s, a)
		ok[a] = o
		if o {
			if v == 0 {
				cls[a] = clsHWIO
			} else if v <= clsWRAM {
				cls[a] = v
			} else {
				is.add("system_probe", "system", "rd", a, fmt.Sprintf("class marker %d", v))
			}
		}
	}
	// passes 1..3: index bytes
	for k := uint(0); k < 3; k++ {
		fillArrays(s, func(c int, i int) byte { return byte(i >> (8 * k)) })
		for a := uint32(0); a < N; a++ {
			if !ok[a] || cls[a] == clsHWIO {
				continue
			}
			v, _ := sysRead(s, a)
			cell[a] |= uint32(v) << (8 * k)
		}
	}
	// a read that the System's OWN three arrays do not explain (a marker that is no class, an index beyond the array) is
	// reported and the address is dropped from the further passes
	for a := uint32(0); a < N; a++ {
		if !ok[a] || cls[a] == clsHWIO {
			continue
		}
		arr := arrOf(s, int(cls[a]))
		if arr == nil || int(cell[a]) >= len(arr) {
			is.add("system_probe", "system", "rd", a, fmt.Sprintf("read is not backed by this System's own ROM/SRAM/WRAM arrays (class %d, index %#x)", cls[a], cell[a]))
			ok[a] = false
		}
	}
	// sanity: the decoded cell really is what the address reads (exactness of the probe)
	fillArrays(s, func(c int, i int) byte { return byte(i*7 + c*13 + i>>9) })
	for a := uint32(0); a < N; a++ {
		if !ok[a] || cls[a] == clsHWIO {
			continue
		}
		arr := arrOf(s, int(cls[a]))
		v, _ := sysRead(s, a)
		if int(cell[a]) >= len(arr) || arr[cell[a]] != v {
			is.add("system_probe", "system", "rd", a, "decoded cell does not reproduce the read value")
		}
	}

	// writes: every address written through the bus must change exactly the byte its read designates.
	// The shadow copy is compared with the real arrays after every bank, so a stray write anywhere
	// else is seen as well.
	wcls := make([]uint8, N)
	wok := make([]bool, N)
	fillArrays(s, func(c int, i int) byte { return 0 })
	shROM := make([]byte, len(s.ROM))
	shSRAM := make([]byte, len(s.SRAM))
	shWRAM := make([]byte, len(s.WRAM))
	shadow := func(c int) []byte {
		switch c {
		case clsROM:
			return shROM
		case clsSRAM:
			return shSRAM
		case clsWRAM:
			return shWRAM
		}
		return nil
	}
	strayBanks := 0
	for bank := uint32(0); bank < 256; bank++ {
		for o := uint32(0); o < 65536; o++ {
			a := bank<<16 | o
			v := byte(a*31+a>>8*17+a>>16*7) | 1 // never 0
			w := sysWrite(s, a, v)
			wok[a] = w
			if !w {
				continue
			}
			if !ok[a] {
				// writable but not readable: classify by the HWIO fallthrough below
				wcls[a] = clsHWIO
				continue
			}
			wcls[a] = cls[a]
			if cls[a] == clsHWIO {
				continue
			}
			arr := arrOf(s, int(cls[a]))
			if arr[cell[a]] != v {
				is.add("c11_write", "system", "wr", a, fmt.Sprintf("write did not land on %s[%#x] (the byte reads come from)", clsName[cls[a]], cell[a]))
				wcls[a] = clsNone
			}
			shadow(int(cls[a]))[cell[a]] = v
		}
		if !bytes.Equal(shROM, s.ROM[:]) || !bytes.Equal(shSRAM, s.SRAM[:]) || !bytes.Equal(shWRAM, s.WRAM[:]) {
			strayBanks++
			is.add("c11_write", "system", "wr", bank<<16, "a write in this bank changed a byte other than the designated one")
			copy(shROM, s.ROM[:])
			copy(shSRAM, s.SRAM[:])
			copy(shWRAM, s.WRAM[:])
		}
	}

	// direct evaluation of the C11 statement against the real LoROM mapper (SWEEP)
	var nBoth uint64
	classBase := []uint32{0, 0, 0xE00000, 0xF50000, 0}
	for a := uint32(0); a < N; a++ {
		if !ok[a] || cls[a] == clsNone {
			continue
		}
		p, err := lorom.BusAddressToPak(a)
		if err != nil {
			continue
		}
		nBoth++
		if pakClassOut(p) != clsName[cls[a]] || p-classBase[cls[a]] != cell[a] {
			is.add("c11_agree", "system", "rd", a, fmt.Sprintf("bus %#x reads %s[%#x] but LoROM says pak %#x (%s)", a, clsName[cls[a]], cell[a], p, pakClassOut(p)))
		}
	}
	info["addresses_both_memory"] = nBoth
	info["stray_write_banks"] = strayBanks

	// page tables
	mk := func(t int, c []uint8, okv []bool) []pageLine {
		out := make([]pageLine, 0, nPages)
		for pg := 0; pg < nPages; pg++ {
			start := uint32(pg) * pageSize
			ln := pageLine{T: t, Page: pg, U: 1}
			c0 := c[start]
			if !okv[start] {
				c0 = clsNone
			}
			ln.M = int(c0)
			if c0 >= clsROM && c0 <= clsWRAM {
				ln.B = int64(cell[start])
			}
			for k := uint32(0); k < pageSize; k++ {
				a := start + k
				ck := c[a]
				if !okv[a] {
					ck = clsNone
				}
				if ck != c0 || (c0 >= clsROM && c0 <= clsWRAM && cell[a] != cell[start]+k) {
					ln.U = 0
					break
				}
			}
			out = append(out, ln)
		}
		return out
	}
	rd = mk(8, cls, ok)
	wr = mk(9, wcls, wok)
	nonU := 0
	for i := range rd {
		if rd[i].U == 0 || wr[i].U == 0 {
			nonU++
		}
	}
	info["nonuniform_pages"] = nonU
	return
}
