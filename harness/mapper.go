package main

// Recording of the four real mappers (and of emulator.System) as 8 KiB page tables for
// MemMapTrace.tla, after checking exhaustively (all 2^24 addresses) the compression lemma that
// makes page granularity exact: "inside every 8 KiB page the real function is either unmapped
// everywhere or base+offset".  Properties C04, C05, C11.

import (
	"bufio"
	"encoding/json"
	"errors"
	"fmt"
	"math/rand"
	"os"
	"path/filepath"

	"github.com/alttpo/snes/mapping/exhirom"
	"github.com/alttpo/snes/mapping/hirom"
	"github.com/alttpo/snes/mapping/lorom"
	"github.com/alttpo/snes/mapping/sa1rom"
	"github.com/alttpo/snes/mapping/util"
)

type mapFn func(uint32) (uint32, error)

type mapperT struct {
	name     string
	b2p, p2b mapFn
}

var mappers = []mapperT{
	{"lorom", lorom.BusAddressToPak, lorom.PakAddressToBus},
	{"hirom", hirom.BusAddressToPak, hirom.PakAddressToBus},
	{"exhirom", exhirom.BusAddressToPak, exhirom.PakAddressToBus},
	{"sa1rom", sa1rom.BusAddressToPak, sa1rom.PakAddressToBus},
}

const pageSize = 8192
const nPages = 2048

type pageLine struct {
	T    int   `json:"t"`    // table index: 0..3 b2p, 4..7 p2b (mapper order), 8 system read, 9 system write
	Page int   `json:"page"` // 8 KiB page number
	M    int   `json:"m"`    // mappers: 0 unmapped / 1 mapped; system: class code 0 none,1 ROM,2 SRAM,3 WRAM,4 HWIO
	B    int64 `json:"b"`    // base (result for the first address of the page)
	U    int   `json:"u"`    // 1 = page is uniform (lemma holds), 0 = not
}

type issue struct {
	Kind   string `json:"kind"`
	Map    string `json:"map"`
	Dir    string `json:"dir,omitempty"`
	Addr   uint32 `json:"addr"`
	Detail string `json:"detail"`
}

type issues struct {
	list  []issue
	count map[string]int
}

func (is *issues) add(kind, mp, dir string, addr uint32, detail string) {
	if is.count == nil {
		is.count = map[string]int{}
	}
	key := kind + "/" + mp + "/" + dir
	is.count[key]++
	if is.count[key] <= 5 {
		is.list = append(is.list, issue{kind, mp, dir, addr, detail})
	}
}

// call with panic recovery: a panicking mapper is reported, not a harness crash
func safeCall(f mapFn, a uint32) (r uint32, err error, panicked bool) {
	defer func() {
		if e := recover(); e != nil {
			panicked = true
		}
	}()
	r, err = f(a)
	return
}

func sweepTable(t int, mp string, dir string, f mapFn, is *issues) []pageLine {
	lines := make([]pageLine, 0, nPages)
	for pg := 0; pg < nPages; pg++ {
		start := uint32(pg) * pageSize
		base, err, pan := safeCall(f, start)
		if pan {
			is.add("panic", mp, dir, start, "mapper panicked")
		}
		mapped := err == nil
		uniform := true
		for k := uint32(0); k < pageSize; k++ {
			a := start + k
			r, e, pan := safeCall(f, a)
			if pan {
				is.add("panic", mp, dir, a, "mapper panicked")
				uniform = false
				continue
			}
			if e == nil {
				if !mapped || r != base+k {
					if uniform {
						is.add("nonuniform", mp, dir, a, fmt.Sprintf("page base %#x mapped=%v but f(%#x)=%#x", base, mapped, a, r))
					}
					uniform = false
				}
				if r >= 1<<24 {
					is.add("range", mp, dir, a, fmt.Sprintf("result %#x outside 24 bits", r))
				}
			} else {
				if mapped {
					if uniform {
						is.add("nonuniform", mp, dir, a, fmt.Sprintf("page base %#x mapped but f(%#x) fails", base, a))
					}
					uniform = false
				}
				// error identity and zero result (C05)
				if !errors.Is(e, util.ErrUnmappedAddress) {
					is.add("erridentity", mp, dir, a, fmt.Sprintf("error %v is not ErrUnmappedAddress", e))
				}
				if r != 0 {
					is.add("errresult", mp, dir, a, fmt.Sprintf("unmapped but result %#x != 0", r))
				}
			}
		}
		ln := pageLine{T: t, Page: pg}
		if mapped {
			ln.M = 1
			ln.B = int64(base)
		}
		if uniform {
			ln.U = 1
		}
		lines = append(lines, ln)
	}
	return lines
}

func pakClassOut(p uint32) string {
	switch {
	case p < 0xE00000:
		return "ROM"
	case p < 0xF00000:
		return "SRAM"
	case p >= 0xF50000 && p < 0xF70000:
		return "WRAM"
	}
	return "bad"
}

func pakClassIn(p uint32) string {
	switch {
	case p < 0xE00000:
		return "ROM"
	case p < 0xF00000:
		return "SRAM"
	case p >= 0xF50000:
		return "WRAM"
	}
	return "hole"
}

// direct evaluation of the C04 statement on the real functions for every address (SWEEP)
// expected value of a swept function at address a, from its recorded page table
func fromTable(tbl []pageLine, a uint32) (uint32, bool) {
	if a >= 1<<24 { // a result outside the 24-bit space (reported as "range" where it is produced) is no table entry
		return 0, false
	}
	ln := tbl[a/pageSize]
	if ln.M == 0 {
		return 0, false
	}
	return uint32(ln.B) + a%pageSize, true
}

func sweepC04(m mapperT, tb2p, tp2b []pageLine, is *issues) (nRI, nCol uint64) {
	// the mappers are stateless functions: in a mixed sequence of calls in both directions every result must
	// still be the one the single-direction sweep recorded, and lie inside a class window (C05)
	stable := func(dir string, tbl []pageLine, a, r uint32, err error) {
		if a >= 1<<24 {
			is.add("range", m.name, dir, a, "address outside 24 bits passed on from a previous result")
			return
		}
		want, ok := fromTable(tbl, a)
		if tbl[a/pageSize].U == 0 {
			return
		}
		if ok != (err == nil) || (ok && want != r && dir == "b2p") {
			is.add("unstable", m.name, dir, a, fmt.Sprintf("in a mixed call sequence f(%#x)=%#x err=%v, but %#x mapped=%v when swept alone", a, r, err, want, ok))
		}
		if dir == "b2p" && err == nil && pakClassOut(r) == "bad" {
			is.add("range", m.name, dir, a, fmt.Sprintf("result %#x lies in no memory-class window", r))
		}
	}
	for a := uint32(0); a < 1<<24; a++ {
		p, err := m.b2p(a)
		stable("b2p", tb2p, a, p, err)
		if err != nil {
			continue
		}
		nRI++
		a2, err2 := m.p2b(p)
		stable("p2b", tp2b, p, a2, err2)
		if err2 != nil {
			is.add("c04_rightinverse", m.name, "", a, fmt.Sprintf("B2P(%#x)=%#x but P2B(%#x) fails", a, p, p))
			continue
		}
		p2, err3 := m.b2p(a2)
		stable("b2p", tb2p, a2, p2, err3)
		if err3 != nil || p2 != p {
			is.add("c04_rightinverse", m.name, "", a, fmt.Sprintf("B2P(%#x)=%#x, P2B=%#x, B2P again=%#x err=%v", a, p, a2, p2, err3))
		}
	}
	for p := uint32(0); p < 1<<24; p++ {
		a, err := m.p2b(p)
		stable("p2b", tp2b, p, a, err)
		if err != nil {
			continue
		}
		nCol++
		q, err2 := m.b2p(a)
		stable("b2p", tb2p, a, q, err2)
		if err2 != nil {
			is.add("c04_collapse", m.name, "", p, fmt.Sprintf("P2B(%#x)=%#x which B2P does not map", p, a))
			continue
		}
		if pakClassOut(q) != pakClassIn(p) || q%pageSize != p%pageSize {
			is.add("c04_collapse", m.name, "", p, fmt.Sprintf("P2B(%#x)=%#x, B2P=%#x: class %s vs %s / page offset differs", p, a, q, pakClassOut(q), pakClassIn(p)))
		}
	}
	return
}

// The eight translation functions are STATELESS: whatever was called before -- the same function, the other direction,
// another mapper -- a bus->pak answer must be the one the linear sweep recorded (C05 fixes it completely), and a pak->bus
// answer must accept/reject the same addresses and satisfy the C04 statement (right inverse, collapse onto the same
// class and page offset).  Seeded EPISODES: a small working set of related addresses (same address, one bit flipped,
// +/- $800000, same offset elsewhere, unrelated) and of functions, revisited in random order, so that single- and
// multi-entry memo tables, "last region" hints and state shared between mappers or directions are exercised.
func historyProbe(all []pageLine, is *issues, n int) int {
	r := rand.New(rand.NewSource(seedEnv() + 77))
	type fn struct {
		mp, dir string
		f       mapFn
		tbl     []pageLine
		b2p     []pageLine // the same mapper's bus->pak table
		p2b     []pageLine
		mi      int
	}
	var fns []fn
	for i, m := range mappers {
		b, p := all[i*nPages:(i+1)*nPages], all[(4+i)*nPages:(5+i)*nPages]
		fns = append(fns, fn{m.name, "b2p", m.b2p, b, b, p, i})
		fns = append(fns, fn{m.name, "p2b", m.p2b, p, b, p, i})
	}
	image := make([]map[uint32]bool, len(mappers)) // pak pages in the image of each mapper's bus->pak
	for i := range mappers {
		image[i] = map[uint32]bool{}
		for _, ln := range all[i*nPages : (i+1)*nPages] {
			if ln.M == 1 {
				image[i][uint32(ln.B)/pageSize] = true
			}
		}
	}
	interesting := []uint32{0, 0x1FFF, 0x2000, 0x5FFF, 0x6000, 0x7FFF, 0x8000, 0xFFFF, 0x3E0000, 0x3F0000, 0x400000, 0x600000, 0x700000, 0x7D0000,
		0x7E0000, 0x7FFFFF, 0x800000, 0xBE0000, 0xC00000, 0xE00000, 0xE40000, 0xEFFFFF, 0xF00000, 0xF4FFFF, 0xF50000, 0xF6FFFF, 0xF70000, 0xFFFFFF}
	pick := func() uint32 {
		if r.Intn(3) == 0 {
			return (interesting[r.Intn(len(interesting))] + uint32(r.Intn(5)) - 2) & 0xFFFFFF
		}
		return uint32(r.Intn(1 << 24))
	}
	related := func(a uint32) uint32 {
		switch r.Intn(7) {
		case 0:
			return a ^ 1<<uint(r.Intn(24))
		case 1:
			return (a + 0x800000) & 0xFFFFFF
		case 2:
			return a&0x1FFF | uint32(r.Intn(nPages))*pageSize // same offset, other page
		case 3:
			return a&0xFFFF | uint32(r.Intn(256))<<16 // same offset, other bank
		case 4:
			return (a + uint32(r.Intn(3)) - 1) & 0xFFFFFF
		case 5:
			return (a + 0x400000) & 0xFFFFFF
		}
		return pick()
	}
	check := func(f fn, a uint32) {
		if f.tbl[a/pageSize].U == 0 {
			return
		}
		got, err, pan := safeCall(f.f, a)
		want, ok := fromTable(f.tbl, a)
		if pan {
			is.add("panic", f.mp, f.dir, a, "mapper panicked after other calls")
			return
		}
		if ok != (err == nil) {
			is.add("unstable", f.mp, f.dir, a, fmt.Sprintf("after other calls f(%#x)=%#x err=%v, but mapped=%v when swept alone", a, got, err, ok))
			return
		}
		if !ok || want == got {
			return
		}
		if f.dir == "b2p" {
			is.add("unstable", f.mp, f.dir, a, fmt.Sprintf("after other calls B2P(%#x)=%#x, but %#x when swept alone", a, got, want))
			return
		}
		// a different pak->bus answer is allowed only if it still satisfies the C04 statement; one that does not also
		// contradicts C05 ("the class and linear position of every address are those of the documented region table",
		// in both directions)
		q, mapped := fromTable(f.b2p, got)
		if !mapped || (image[f.mi][a/pageSize] && q != a) || pakClassOut(q) != pakClassIn(a) || q%pageSize != a%pageSize {
			is.add("unstable", f.mp, f.dir, a, fmt.Sprintf("after other calls P2B(%#x)=%#x (B2P of it: %#x mapped=%v), %#x when swept alone", a, got, q, mapped, want))
		}
		switch {
		case !mapped:
			is.add("c04_collapse", f.mp, "", a, fmt.Sprintf("after other calls P2B(%#x)=%#x which B2P does not map", a, got))
		case image[f.mi][a/pageSize] && q != a:
			is.add("c04_rightinverse", f.mp, "", a, fmt.Sprintf("after other calls P2B(%#x)=%#x but B2P(%#x)=%#x", a, got, got, q))
		case pakClassOut(q) != pakClassIn(a) || q%pageSize != a%pageSize:
			is.add("c04_collapse", f.mp, "", a, fmt.Sprintf("after other calls P2B(%#x)=%#x, B2P=%#x: other class or page offset", a, got, q))
		}
	}
	calls := 0
	for calls < n {
		// working sets of this episode
		na := 2 + r.Intn(3)
		addrs := []uint32{pick()}
		for len(addrs) < na {
			addrs = append(addrs, related(addrs[r.Intn(len(addrs))]))
		}
		var fs []fn
		switch r.Intn(4) {
		case 0: // one function
			fs = []fn{fns[r.Intn(len(fns))]}
		case 1: // both directions of one mapper
			k := r.Intn(4)
			fs = []fn{fns[2*k], fns[2*k+1]}
		case 2: // one direction, two mappers
			d := r.Intn(2)
			fs = []fn{fns[2*r.Intn(4)+d], fns[2*r.Intn(4)+d]}
		default:
			fs = []fn{fns[r.Intn(len(fns))], fns[r.Intn(len(fns))], fns[r.Intn(len(fns))]}
		}
		for k := 4 + r.Intn(8); k > 0; k-- {
			check(fs[r.Intn(len(fs))], addrs[r.Intn(len(addrs))])
			calls++
		}
	}
	return calls
}

func init() {
	register("mappages", func(args []string) error {
		if len(args) < 1 {
			return fmt.Errorf("usage: vh mappages <outdir> [nosystem]")
		}
		outdir := args[0]
		var is issues
		// the order in which a process first touches the eight functions is part of the history: the default is
		// bus->pak first, mapper order; VERIF_ORDER=pakfirst sweeps pak->bus first, mappers reversed (the driver runs
		// one process of each kind)
		all := make([]pageLine, 8*nPages, 10*nPages)
		sweepInto := func(t int) {
			m := mappers[t%4]
			if t < 4 {
				copy(all[t*nPages:], sweepTable(t, m.name, "b2p", m.b2p, &is))
			} else {
				copy(all[t*nPages:], sweepTable(t, m.name, "p2b", m.p2b, &is))
			}
		}
		if os.Getenv("VERIF_ORDER") == "pakfirst" {
			for _, t := range []int{7, 6, 5, 4, 3, 2, 1, 0} {
				sweepInto(t)
			}
		} else {
			for t := 0; t < 8; t++ {
				sweepInto(t)
			}
		}
		var nRI, nCol uint64
		for i, m := range mappers {
			a, b := sweepC04(m, all[i*nPages:(i+1)*nPages], all[(4+i)*nPages:(5+i)*nPages], &is)
			nRI += a
			nCol += b
		}
		nHist := 4000000
		if os.Getenv("VERIF_TIER") == "thorough" {
			nHist = 60000000
		}
		histCalls := historyProbe(all, &is, nHist)
		sysInfo := map[string]interface{}{}
		if len(args) < 2 || args[1] != "nosystem" {
			variant := ""
			if len(args) >= 2 {
				variant = args[1]
			}
			rd, wr, info := probeSystem(&is, variant)
			all = append(all, rd...)
			all = append(all, wr...)
			sysInfo = info
		}
		f, err := os.Create(filepath.Join(outdir, "pages.ndjson"))
		if err != nil {
			return err
		}
		w := bufio.NewWriter(f)
		enc := json.NewEncoder(w)
		for _, ln := range all {
			if err := enc.Encode(ln); err != nil {
				return err
			}
		}
		if err := w.Flush(); err != nil {
			return err
		}
		f.Close()
		sum := map[string]interface{}{
			"lines":            len(all),
			"issues":           is.list,
			"issue_counts":     is.count,
			"sweep_rightinv_n": nRI, "history_calls": histCalls,
			"sweep_collapse_n": nCol,
			"system":           sysInfo,
		}
		return json.NewEncoder(os.Stdout).Encode(sum)
	})
}
