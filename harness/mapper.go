package main

// Recording of the four real mappers (and of emulator.System) as 8 KiB page tables for
// MemMapTrace.tla, after checking exhaustively (all 2^24 addresses) the compression lemma that
// makes page granularity exact: "inside every 8 KiB page the real function is either unmapped
// everywhere or base+offset".  Properties C04, C05, C11.

import (
	"bufio"
	"encoding/json"
	"errors"
	"fmt"
	"os"
	"path/filepath"

	"github.com/alttpo/snes/mapping/exhirom"
	"github.com/alttpo/snes/mapping/hirom"
	"github.com/alttpo/snes/mapping/lorom"
	"github.com/alttpo/snes/mapping/sa1rom"
	"github.com/alttpo/snes/mapping/util"
)

type mapFn func(uint32) (uint32, error)

type mapperT struct {
	name     string
	b2p, p2b mapFn
}

var mappers = []mapperT{
	{"lorom", lorom.BusAddressToPak, lorom.PakAddressToBus},
	{"hirom", hirom.BusAddressToPak, hirom.PakAddressToBus},
	{"exhirom", exhirom.BusAddressToPak, exhirom.PakAddressToBus},
	{"sa1rom", sa1rom.BusAddressToPak, sa1rom.PakAddressToBus},
}

const pageSize = 8192
const nPages = 2048

type pageLine struct {
	T    int   `json:"t"`    // table index: 0..3 b2p, 4..7 p2b (mapper order), 8 system read, 9 system write
	Page int   `json:"page"` // 8 KiB page number
	M    int   `json:"m"`    // mappers: 0 unmapped / 1 mapped; system: class code 0 none,1 ROM,2 SRAM,3 WRAM,4 HWIO
	B    int64 `json:"b"`    // base (result for the first address of the page)
	U    int   `json:"u"`    // 1 = page is uniform (lemma holds), 0 = not
}

type issue struct {
	Kind   string `json:"kind"`
	Map    string `json:"map"`
	Dir    string `json:"dir,omitempty"`
	Addr   uint32 `json:"addr"`
	Detail string `json:"detail"`
}

type issues struct {
	list  []issue
	count map[string]int
}

func (is *issues) add(kind, mp, dir string, addr uint32, detail string) {
	if is.count == nil {
		is.count = map[string]int{}
	}
	key := kind + "/" + mp + "/" + dir
	is.count[key]++
	if is.count[key] <= 5 {
		is.list = append(is.list, issue{kind, mp, dir, addr, detail})
	}
}

// call with panic recovery: a panicking mapper is reported, not a harness crash
func safeCall(f mapFn, a uint32) (r uint32, err error, panicked bool) {
	defer func() {
		if e := recover(); e != nil {
			panicked = true
		}
	}()
	r, err = f(a)
	return
}

func sweepTable(t int, mp string, dir string, f mapFn, is *issues) []pageLine {
	lines := make([]pageLine, 0, nPages)
	for pg := 0; pg < nPages; pg++ {
		start := uint32(pg) * pageSize
		base, err, pan := safeCall(f, start)
		if pan {
			is.add("panic", mp, dir, start, "mapper panicked")
		}
		mapped := err == nil
		uniform := true
		for k := uint32(0); k < pageSize; k++ {
			a := start + k
			r, e, pan := safeCall(f, a)
			if pan {
				is.add("panic", mp, dir, a, "mapper panicked")
				uniform = false
				continue
			}
			if e == nil {
				if !mapped || r != base+k {
					if uniform {
						is.add("nonuniform", mp, dir, a, fmt.Sprintf("page base %#x mapped=%v but f(%#x)=%#x", base, mapped, a, r))
					}
					uniform = false
				}
				if r >= 1<<24 {
					is.add("range", mp, dir, a, fmt.Sprintf("result %#x outside 24 bits", r))
				}
			} else {
				if mapped {
					if uniform {
						is.add("nonuniform", mp, dir, a, fmt.Sprintf("page base %#x mapped but f(%#x) fails", base, a))
					}
					uniform = false
				}
				// error identity and zero result (C05)
				if !errors.Is(e, util.ErrUnmappedAddress) {
					is.add("erridentity", mp, dir, a, fmt.Sprintf("error %v is not ErrUnmappedAddress", e))
				}
				if r != 0 {
					is.add("errresult", mp, dir, a, fmt.Sprintf("unmapped but result %#x != 0", r))
				}
			}
		}
		ln := pageLine{T: t, Page: pg}
		if mapped {
			ln.M = 1
			ln.B = int64(base)
		}
		if uniform {
			ln.U = 1
		}
		lines = append(lines, ln)
	}
	return lines
}

func pakClassOut(p uint32) string {
	switch {
	case p < 0xE00000:
		return "ROM"
	case p < 0xF00000:
		return "SRAM"
	case p >= 0xF50000 && p < 0xF70000:
		return "WRAM"
	}
	return "bad"
}

func pakClassIn(p uint32) string {
	switch {
	case p < 0xE00000:
		return "ROM"
	case p < 0xF00000:
		return "SRAM"
	case p >= 0xF50000:
		return "WRAM"
	}
	return "hole"
}

// direct evaluation of the C04 statement on the real functions for every address (SWEEP)
// expected value of a swept function at address a, from its recorded page table
func fromTable(tbl []pageLine, a uint32) (uint32, bool) {
	ln := tbl[a/pageSize]
	if ln.M == 0 {
		return 0, false
	}
	return uint32(ln.B) + a%pageSize, true
}

func sweepC04(m mapperT, tb2p, tp2b []pageLine, is *issues) (nRI, nCol uint64) {
	// the mappers are stateless functions: in a mixed sequence of calls in both directions every result must
	// still be the one the single-direction sweep recorded, and lie inside a class window (C05)
	stable := func(dir string, tbl []pageLine, a, r uint32, err error) {
		want, ok := fromTable(tbl, a)
		if tbl[a/pageSize].U == 0 {
			return
		}
		if ok != (err == nil) || (ok && want != r) {
			is.add("unstable", m.name, dir, a, fmt.Sprintf("in a mixed call sequence f(%#x)=%#x err=%v, but %#x mapped=%v when swept alone", a, r, err, want, ok))
		}
		if dir == "b2p" && err == nil && pakClassOut(r) == "bad" {
			is.add("range", m.name, dir, a, fmt.Sprintf("result %#x lies in no memory-class window", r))
		}
	}
	for a := uint32(0); a < 1<<24; a++ {
		p, err := m.b2p(a)
		stable("b2p", tb2p, a, p, err)
		if err != nil {
			continue
		}
		nRI++
		a2, err2 := m.p2b(p)
		stable("p2b", tp2b, p, a2, err2)
		if err2 != nil {
			is.add("c04_rightinverse", m.name, "", a, fmt.Sprintf("B2P(%#x)=%#x but P2B(%#x) fails", a, p, p))
			continue
		}
		p2, err3 := m.b2p(a2)
		stable("b2p", tb2p, a2, p2, err3)
		if err3 != nil || p2 != p {
			is.add("c04_rightinverse", m.name, "", a, fmt.Sprintf("B2P(%#x)=%#x, P2B=%#x, B2P again=%#x err=%v", a, p, a2, p2, err3))
		}
	}
	for p := uint32(0); p < 1<<24; p++ {
		a, err := m.p2b(p)
		stable("p2b", tp2b, p, a, err)
		if err != nil {
			continue
		}
		nCol++
		q, err2 := m.b2p(a)
		stable("b2p", tb2p, a, q, err2)
		if err2 != nil {
			is.add("c04_collapse", m.name, "", p, fmt.Sprintf("P2B(%#x)=%#x which B2P does not map", p, a))
			continue
		}
		if pakClassOut(q) != pakClassIn(p) || q%pageSize != p%pageSize {
			is.add("c04_collapse", m.name, "", p, fmt.Sprintf("P2B(%#x)=%#x, B2P=%#x: class %s vs %s / page offset differs", p, a, q, pakClassOut(q), pakClassIn(p)))
		}
	}
	return
}

func init() {
	register("mappages", func(args []string) error {
		if len(args) < 1 {
			return fmt.Errorf("usage: vh mappages <outdir> [nosystem]")
		}
		outdir := args[0]
		var is issues
		var all []pageLine
		for i, m := range mappers {
			all = append(all, sweepTable(i, m.name, "b2p", m.b2p, &is)...)
		}
		for i, m := range mappers {
			all = append(all, sweepTable(4+i, m.name, "p2b", m.p2b, &is)...)
		}
		var nRI, nCol uint64
		for i, m := range mappers {
			a, b := sweepC04(m, all[i*nPages:(i+1)*nPages], all[(4+i)*nPages:(5+i)*nPages], &is)
			nRI += a
			nCol += b
		}
		sysInfo := map[string]interface{}{}
		if len(args) < 2 || args[1] != "nosystem" {
			rd, wr, info := probeSystem(&is)
			all = append(all, rd...)
			all = append(all, wr...)
			sysInfo = info
		}
		f, err := os.Create(filepath.Join(outdir, "pages.ndjson"))
		if err != nil {
			return err
		}
		w := bufio.NewWriter(f)
		enc := json.NewEncoder(w)
		for _, ln := range all {
			if err := enc.Encode(ln); err != nil {
				return err
			}
		}
		if err := w.Flush(); err != nil {
			return err
		}
		f.Close()
		sum := map[string]interface{}{
			"lines":            len(all),
			"issues":           is.list,
			"issue_counts":     is.count,
			"sweep_rightinv_n": nRI,
			"sweep_collapse_n": nCol,
			"system":           sysInfo,
		}
		return json.NewEncoder(os.Stdout).Encode(sum)
	})
}
