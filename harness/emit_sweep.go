package main

// C03, exhaustive in data: every instruction-emitting method is called with EVERY operand value of its
// type (2^8, 2^16; 2^24 for the long forms in the thorough tier) under every tracked width state in which
// it is legal; the emitted bytes must be  opcode ++ little-endian operand  with the opcode and operand
// kind taken from the method table that TLC exports from Emitter.tla (EmitterTable.tla).

import (
	"encoding/json"
	"fmt"
	"os"
	"reflect"

	"github.com/alttpo/snes/asm"
)

type methodRow struct {
	Name  string `json:"name"`
	Op    int    `json:"op"`
	Kind  string `json:"kind"`
	Guard string `json:"guard"`
}

func sweepMethods(tablePath string, full24 bool) error {
	var rows []methodRow
	b, err := os.ReadFile(tablePath)
	if err != nil {
		return err
	}
	if err := json.Unmarshal(b, &rows); err != nil {
		return err
	}
	type badT struct {
		M    string `json:"m"`
		Arg  int    `json:"arg"`
		W    int    `json:"widths"`
		Got  []int  `json:"got"`
		Want []int  `json:"want"`
		What string `json:"what"`
	}
	var bads []badT
	nbad := 0
	var calls uint64
	buf := make([]byte, 8)
	for _, row := range rows {
		if row.Kind == "l8" || row.Kind == "l16" {
			continue // label references carry placeholders; covered by the C06 checks
		}
		var domain uint32
		switch row.Kind {
		case "none":
			domain = 1
		case "u8", "flags":
			domain = 1 << 8
		case "u16", "lh", "bm":
			domain = 1 << 16
		case "u24", "lhb":
			domain = 1 << 24
		}
		step := uint32(1)
		if domain == 1<<24 && !full24 {
			step = 4093 // prime stride sample in the quick tier; boundaries are added below
		}
		for widths := 0; widths < 4; widths++ { // bit1 = M8, bit0 = X8
			m8, x8 := widths&2 != 0, widths&1 != 0
			switch row.Guard {
			case "M8":
				if !m8 {
					continue
				}
			case "M16":
				if m8 {
					continue
				}
			case "X8":
				if !x8 {
					continue
				}
			case "X16":
				if x8 {
					continue
				}
			}
			one := func(v uint32) {
				e := asm.NewEmitter(buf, false)
				var fl asm.Flags
				if m8 {
					fl |= 0x20
				}
				if x8 {
					fl |= 0x10
				}
				e.AssumeSEP(fl)
				if calls%2 == 1 { // the program counter's bank must not leak into any operand
					e.SetBase(0x707C00)
				} else {
					e.SetBase(0x8000)
				}
				var args []reflect.Value
				want := []int{row.Op}
				switch row.Kind {
				case "u8":
					mt, _ := reflect.TypeOf(e).MethodByName(row.Name)
					if mt.Type.In(1).Kind() == reflect.Int8 {
						args = []reflect.Value{reflect.ValueOf(int8(uint8(v)))}
					} else {
						args = []reflect.Value{reflect.ValueOf(uint8(v))}
					}
					want = append(want, int(v&0xFF))
				case "flags":
					args = []reflect.Value{reflect.ValueOf(asm.Flags(v))}
					want = append(want, int(v&0xFF))
				case "u16":
					args = []reflect.Value{reflect.ValueOf(uint16(v))}
					want = append(want, int(v&0xFF), int(v>>8&0xFF))
				case "lh", "bm":
					args = []reflect.Value{reflect.ValueOf(uint8(v)), reflect.ValueOf(uint8(v >> 8))}
					want = append(want, int(v&0xFF), int(v>>8&0xFF))
				case "u24":
					arg := v
					if v&0x10101 == 0x10101 {
						arg |= 0xA5000000 // bits above 24 must be ignored
					}
					args = []reflect.Value{reflect.ValueOf(arg)}
					want = append(want, int(v&0xFF), int(v>>8&0xFF), int(v>>16&0xFF))
				case "lhb":
					args = []reflect.Value{reflect.ValueOf(uint8(v)), reflect.ValueOf(uint8(v >> 8)), reflect.ValueOf(uint8(v >> 16))}
					want = append(want, int(v&0xFF), int(v>>8&0xFF), int(v>>16&0xFF))
				}
				pc0 := e.PC()
				pan := guard(func() { reflect.ValueOf(e).MethodByName(row.Name).Call(args) })
				calls++
				got := ints(e.Bytes())
				ok := pan == "" && len(got) == len(want) && e.Len() == len(want) && e.PC() == pc0+uint32(len(want))
				if ok {
					for i := range got {
						if got[i] != want[i] {
							ok = false
						}
					}
				}
				if !ok {
					nbad++
					if len(bads) < 20 {
						what := "bytes"
						if pan != "" {
							what = "refused: " + pan
						} else if e.PC() != pc0+uint32(len(want)) || e.Len() != len(want) {
							what = "Len/PC advance"
						}
						bads = append(bads, badT{row.Name, int(v), widths, got, want, what})
					}
				}
			}
			for v := uint32(0); v < domain; v += step {
				one(v)
			}
			if step > 1 {
				for _, v := range []uint32{0xFFFFFF, 0x7FFFFF, 0x800000, 0x00FFFF, 0x010000, 0xFF0000, 0x0000FF, 0x000100, 0x7E2000, 0x808000} {
					one(v)
				}
			}
		}
	}
	return json.NewEncoder(os.Stdout).Encode(map[string]interface{}{"calls": calls, "methods": len(rows), "mismatches": nbad, "examples": bads})
}

func init() {
	register("emitsweep", func(args []string) error {
		if len(args) < 2 {
			return fmt.Errorf("usage: vh emitsweep <methods.json> quick|thorough")
		}
		return sweepMethods(args[0], args[1] == "thorough")
	})
}
