package main

// C09 / C10: drives real snes.ROM objects through seeded random histories (NewROM, ReadHeader,
// WriteHeader, direct field edits, image pokes, several simultaneously open bus readers/writers)
// and logs one event per action for RomTrace.tla.  Every event carries the complete list of image
// bytes the action changed (full before/after comparison), so TLC sees every stray write.

import (
	"bufio"
	"bytes"
	"encoding/json"
	"errors"
	"fmt"
	"io"
	"math/rand"
	"os"
	"reflect"
	"strconv"

	snes "github.com/alttpo/snes"
)

func romFill(seed uint32, off uint32) byte {
	return byte((off*7 + (off>>8)*13 + (off>>16)*5 + seed) % 256)
}

// flatten the exported fields of the real Header struct by reflection
func flattenHeader(h *snes.Header) map[string]interface{} {
	out := map[string]interface{}{}
	var walk func(prefix string, v reflect.Value)
	walk = func(prefix string, v reflect.Value) {
		t := v.Type()
		for i := 0; i < v.NumField(); i++ {
			f := v.Field(i)
			if !f.CanInterface() {
				continue
			}
			name := prefix + t.Field(i).Name
			switch f.Kind() {
			case reflect.Struct:
				walk(name+"_", f)
			case reflect.Array:
				arr := make([]int, f.Len())
				for j := range arr {
					arr[j] = int(f.Index(j).Uint())
				}
				out[name] = arr
			case reflect.Uint32:
				u := f.Uint()
				out[name] = []int{int(u & 0xFFFF), int(u >> 16)}
			default:
				out[name] = int(f.Uint())
			}
		}
	}
	walk("", reflect.ValueOf(h).Elem())
	return out
}

type fieldRef struct {
	name string
	v    reflect.Value
}

func headerFields(h *snes.Header) []fieldRef {
	var out []fieldRef
	var walk func(prefix string, v reflect.Value)
	walk = func(prefix string, v reflect.Value) {
		t := v.Type()
		for i := 0; i < v.NumField(); i++ {
			f := v.Field(i)
			if !f.CanInterface() {
				continue
			}
			name := prefix + t.Field(i).Name
			if f.Kind() == reflect.Struct {
				walk(name+"_", f)
			} else {
				out = append(out, fieldRef{name, f})
			}
		}
	}
	walk("", reflect.ValueOf(h).Elem())
	return out
}

func errClass(err error) string {
	switch {
	case err == nil:
		return "nil"
	case err == io.EOF:
		return "eof"
	case errors.Is(err, io.ErrUnexpectedEOF):
		return "ueof"
	}
	return "other"
}

type romDriver struct {
	r    *rand.Rand
	w    *bufio.Writer
	rom  *snes.ROM
	prev []byte
	n    int
}

func (d *romDriver) emit(ev map[string]interface{}) {
	// image diff relative to the state before this action
	diff := [][2]int{}
	if d.rom != nil {
		c := d.rom.Contents
		if !bytes.Equal(c, d.prev) {
			for i := range c {
				if c[i] != d.prev[i] {
					diff = append(diff, [2]int{i, int(c[i])})
					d.prev[i] = c[i]
				}
			}
		}
	}
	ev["diff"] = diff
	b, _ := json.Marshal(ev)
	d.w.Write(b)
	d.w.WriteByte('\n')
	d.n++
}

func guard(f func()) (panicked string) {
	defer func() {
		if e := recover(); e != nil {
			panicked = fmt.Sprint(e)
		}
	}()
	f()
	return ""
}

func (d *romDriver) scenario(big bool) {
	r := d.r
	nbanks := 1 + r.Intn(8)
	if big {
		nbanks = 0x81 + r.Intn(3)
	}
	size := nbanks * 0x8000
	seed := uint32(r.Intn(256))
	contents := make([]byte, size)
	for i := range contents {
		contents[i] = romFill(seed, uint32(i))
	}
	// header pattern
	hdr := contents[0x7FB0:0x8000]
	switch r.Intn(5) {
	case 0:
		for i := range hdr {
			hdr[i] = 0xFF
		}
	case 1:
		for i := range hdr {
			hdr[i] = 0
		}
		hdr[r.Intn(80)] = byte(r.Intn(256))
	default:
		for i := range hdr {
			hdr[i] = byte(r.Intn(256))
		}
	}
	// version selectors: all four combinations of ($FFDA == $33, $FFD4 == 0)
	switch r.Intn(4) {
	case 0:
		hdr[42] = 0x33
		hdr[36] = 0
	case 1:
		hdr[42] = 0x33
		if hdr[36] == 0 {
			hdr[36] = 0x20
		}
	case 2:
		if hdr[42] == 0x33 {
			hdr[42] = 0x32
		}
		hdr[36] = 0
	case 3:
		if hdr[42] == 0x33 {
			hdr[42] = 0x01
		}
		if hdr[36] == 0 {
			hdr[36] = 0x41
		}
	}
	init := [][2]int{}
	for i := 0; i < 80; i++ {
		init = append(init, [2]int{0x7FB0 + i, int(hdr[i])})
	}
	d.rom = nil
	rom, err := snes.NewROM("x", contents)
	if err != nil {
		d.emit(map[string]interface{}{"k": "new", "seed": seed, "size": size, "init": init, "err": true})
		return
	}
	d.prev = make([]byte, size)
	for i := range d.prev {
		d.prev[i] = romFill(seed, uint32(i))
	}
	copy(d.prev[0x7FB0:0x8000], hdr) // hdr aliases contents; harmless
	d.rom = rom
	d.emit(map[string]interface{}{"k": "new", "seed": seed, "size": size, "init": init, "err": false,
		"ver": rom.Header.HeaderVersion(), "fields": flattenHeader(&rom.Header)})

	type handle struct {
		kind string
		rd   io.Reader
		wr   io.Writer
		end  int // remaining-to-window-end estimate used only to bias lengths
		pos  int // file offset the next byte goes to (LoROM offset of the bus address + bytes moved so far), -1 if unknown
	}
	handles := map[int]*handle{}
	nextH := 1
	fields := headerFields(&rom.Header)
	nops := 8 + r.Intn(24)
	for op := 0; op < nops; op++ {
		switch x := r.Intn(20); {
		case x < 2:
			e := rom.ReadHeader()
			pair := func(u uint32) []int { return []int{int(u & 0xFFFF), int(u >> 16)} }
			h := &rom.Header
			d.emit(map[string]interface{}{"k": "readhdr", "err": errClass(e), "ver": h.HeaderVersion(), "fields": flattenHeader(h),
				"score": []int{h.Score(0x007fb0), h.Score(0x00ffb0), h.Score(0x40ffb0), h.Score(0)},
				"romsz": pair(h.ROMSizeBytes()), "ramsz": pair(h.RAMSizeBytes())})
		case x < 5:
			e := rom.WriteHeader()
			d.emit(map[string]interface{}{"k": "writehdr", "err": errClass(e)})
		case x < 7:
			f := fields[r.Intn(len(fields))]
			var val interface{}
			switch f.v.Kind() {
			case reflect.Array:
				arr := make([]int, f.v.Len())
				for j := range arr {
					b := r.Intn(256)
					arr[j] = b
					f.v.Index(j).SetUint(uint64(b))
				}
				val = arr
			case reflect.Uint32:
				u := r.Uint32()
				f.v.SetUint(uint64(u))
				val = []int{int(u & 0xFFFF), int(u >> 16)}
			case reflect.Uint16:
				u := r.Intn(65536)
				f.v.SetUint(uint64(u))
				val = u
			default:
				u := r.Intn(256)
				if r.Intn(4) == 0 {
					u = []int{0, 0x33, 0xFF}[r.Intn(3)]
				}
				f.v.SetUint(uint64(u))
				val = u
			}
			d.emit(map[string]interface{}{"k": "setfield", "name": f.name, "val": val})
		case x < 8 && r.Intn(2) == 0:
			// Header.ReadHeader on a reader positioned inside a whole image, twice in a row on the same reader: each
			// call must decode the 80 bytes at the reader's position
			pos := []int{0x7FB0, 0x7FB0, 0, r.Intn(size - 200)}[r.Intn(4)]
			rd := bytes.NewReader(rom.Contents)
			rd.Seek(int64(pos), io.SeekStart)
			for k := 0; k < 2 && pos+80*(k+1) <= size; k++ { // (only while 80 bytes are left in the image)
				var h snes.Header
				var e error
				p := guard(func() { e = h.ReadHeader(rd) })
				d.emit(map[string]interface{}{"k": "hparse", "pos": pos + 80*k, "err": errClass(e), "panic": p != "", "ver": h.HeaderVersion(),
					"fields": flattenHeader(&h)})
			}
		case x < 8:
			var buf bytes.Buffer
			pre := []int{0, 0, 1, 16, 80, 200}[r.Intn(6)] // the destination may already hold data: 80 bytes are APPENDED
			for i := 0; i < pre; i++ {
				buf.WriteByte(byte(i * 3))
			}
			e := rom.Header.WriteHeader(&buf)
			tail := []byte{}
			if buf.Len() >= pre {
				tail = buf.Bytes()[pre:]
			}
			bs := make([]int, len(tail))
			for i, b := range tail {
				bs[i] = int(b)
			}
			d.emit(map[string]interface{}{"k": "ser", "err": errClass(e), "bytes": bs})
		case x < 10 && r.Intn(5) == 0:
			// the image is replaced by another one of the same length (a patched copy): header operations must act on
			// the image the ROM holds now; handles opened on the old image are dropped
			nc := append([]byte(nil), rom.Contents...)
			for k := 1 + r.Intn(6); k > 0; k-- {
				nc[0x7FB0+r.Intn(80)] = byte(r.Intn(256))
			}
			rom.Contents = nc
			handles = map[int]*handle{}
			d.emit(map[string]interface{}{"k": "swap"})
		case x < 10:
			off := 0x7FB0 + r.Intn(80)
			if r.Intn(4) == 0 {
				off = r.Intn(size)
			}
			v := r.Intn(256)
			if r.Intn(3) == 0 {
				v = []int{0, 0x33}[r.Intn(2)]
			}
			rom.Contents[off] = byte(v)
			d.emit(map[string]interface{}{"k": "poke", "off": off, "val": v})
		case x < 13:
			bank := r.Intn(nbanks)
			if big && r.Intn(2) == 0 {
				bank = 0x80 + r.Intn(nbanks-0x80)
			}
			var offs int
			switch r.Intn(6) {
			case 0:
				offs = 0x8000
			case 1:
				offs = 0x8001
			case 2:
				offs = 0xFFF0 + r.Intn(16)
			case 3:
				offs = r.Intn(0x8000) // below the ROM half: must fail
			case 4:
				offs = 0xFFB0 + r.Intn(0x50)
			default:
				offs = 0x8000 + r.Intn(0x8000)
			}
			bus := bank<<16 | offs
			kind := "r"
			if r.Intn(2) == 0 {
				kind = "w"
			}
			h := &handle{kind: kind, end: 0x10000 - offs, pos: -1}
			if offs >= 0x8000 {
				h.pos = bank<<15 | offs&0x7FFF
			}
			p := guard(func() {
				if kind == "r" {
					h.rd = rom.BusReader(uint32(bus))
				} else {
					h.wr = rom.BusWriter(uint32(bus))
				}
			})
			id := nextH
			nextH++
			if p == "" {
				handles[id] = h
			}
			d.emit(map[string]interface{}{"k": "open", "h": id, "kind": kind, "bus": bus, "panic": p != ""})
		default:
			if len(handles) == 0 {
				continue
			}
			// pick a handle
			ids := make([]int, 0, len(handles))
			for id := range handles {
				ids = append(ids, id)
			}
			// deterministic order
			for i := 1; i < len(ids); i++ {
				for j := i; j > 0 && ids[j] < ids[j-1]; j-- {
					ids[j], ids[j-1] = ids[j-1], ids[j]
				}
			}
			id := ids[r.Intn(len(ids))]
			h := handles[id]
			n := 1 + r.Intn(24)
			if h.end > 0 && h.end < 64 && r.Intn(2) == 0 {
				n = h.end - 3 + r.Intn(7) // around the window end
				if n < 1 {
					n = 1
				}
			}
			if h.kind == "r" {
				buf := make([]byte, n)
				var got int
				var e error
				p := guard(func() { got, e = h.rd.Read(buf) })
				data := make([]int, 0, got)
				for _, b := range buf[:got] {
					data = append(data, int(b))
				}
				h.end -= got
				d.emit(map[string]interface{}{"k": "read", "h": id, "n": n, "data": data, "err": errClass(e), "panic": p != ""})
			} else {
				huge := r.Intn(40) == 0
				if huge { // lengths around and beyond 64 KiB: can never fit a 32 KiB window
					n = []int{0x8000, 0xF900, 0xFFFF, 0x10000, 0x10001, 0x17FFF, 0x18000, 0x20001}[r.Intn(8)]
				}
				pl := make([]byte, n)
				pi := make([]int, n)
				for i := range pl {
					pl[i] = byte(r.Intn(256))
					if huge {
						pl[i] = byte((i+1)*7 + 3) // reconstructed by RomTrace.tla from "plen"
					}
					pi[i] = int(pl[i])
				}
				if !huge && h.pos >= 0 && h.pos+n <= len(rom.Contents) && r.Intn(5) == 0 {
					// write back exactly what the image already holds there (re-applying a patch): the position must still advance
					copy(pl, rom.Contents[h.pos:h.pos+n])
					for i := range pl {
						pi[i] = int(pl[i])
					}
				}
				var got int
				var e error
				p := guard(func() { got, e = h.wr.Write(pl) })
				h.end -= got
				if h.pos >= 0 {
					h.pos += got
				}
				ev := map[string]interface{}{"k": "write", "h": id, "p": pi, "n": got, "err": errClass(e), "panic": p != ""}
				if huge {
					ev["p"], ev["plen"] = []int{}, n
				}
				d.emit(ev)
			}
		}
	}
}

func init() {
	register("rom", func(args []string) error {
		if len(args) < 3 || args[0] != "record" {
			return fmt.Errorf("usage: vh rom record <out.ndjson> <scenarios>")
		}
		n, _ := strconv.Atoi(args[2])
		f, err := os.Create(args[1])
		if err != nil {
			return err
		}
		defer f.Close()
		d := &romDriver{r: rand.New(rand.NewSource(seedEnv())), w: bufio.NewWriterSize(f, 1<<20)}
		for i := 0; i < n; i++ {
			d.scenario(i%40 == 39)
		}
		d.w.Flush()
		fmt.Printf("{\"events\": %d, \"scenarios\": %d}\n", d.n, n)
		return nil
	})
}
