#!/bin/sh
# Run once after a fresh restore, offline: warms the Go build cache by building the harness
# (checks rebuild it anyway from /repo's current working tree) and verifies the TLA+ tools start.
set -e
cd "$(dirname "$0")"
export GOFLAGS=-mod=mod GOPROXY=off GOSUMDB=off GOTOOLCHAIN=local
mkdir -p .build evidence
(cd harness && go build -o ../.build/vh .)
java -cp /opt/veriftools/tla/tla2tools.jar tlc2.TLC -h >/dev/null 2>&1 || true
echo "setup ok"
