# Shared machinery for the /verif checks: harness build, TLC runner, verdict protocol, evidence.
#
# Exit protocol (DESIGN.md 2.3):
#   0  property held on everything explored (KNOWN-FINDING lines allowed)
#   1  VIOLATION property=<id> replay=<path>   (real code contradicted the spec)
#   2  infrastructure problem (build failure, TLC crash/timeout, counter-example that does not
#      reproduce on the real code, harness self-check failure) -- never a violation
import json
import os
import re
import shutil
import subprocess
import sys
import tempfile
import time

VERIF = os.path.dirname(os.path.dirname(os.path.abspath(__file__)))
REPO = os.environ.get("VERIF_REPO", "/repo")
SPEC = os.path.join(VERIF, "spec")
HARNESS = os.path.join(VERIF, "harness")
BUILD = os.path.join(VERIF, ".build")
EVIDENCE = os.path.join(VERIF, "evidence")
REPLAY = os.path.join(VERIF, "replay")
TLA_CP = "/opt/veriftools/tla/tla2tools.jar:/opt/veriftools/tla/CommunityModules-deps.jar"

GOENV = dict(os.environ)
GOENV.update({
    "GOFLAGS": "-mod=mod", "GOPROXY": "off", "GOSUMDB": "off", "GOTOOLCHAIN": "local",
    "GONOSUMCHECK": "1", "GONOSUMDB": "*",
})


class Infra(Exception):
    """Infrastructure failure: reported as exit 2, never as a violation."""


def log(*a):
    print(*a, file=sys.stderr, flush=True)


def seed():
    try:
        return int(os.environ.get("VERIF_SEED", "1"))
    except ValueError:
        return 1


# --------------------------------------------------------------------------------------------
# Go harness


def build_harness(race=False):
    """(Re)build the harness binary against /repo's current working tree with hooks enabled."""
    os.makedirs(BUILD, exist_ok=True)
    out = os.path.join(BUILD, "vh-race" if race else "vh")
    # no build tag: the harness observes the library through its public API only (the guarded debugging hook
    # asm/verif_hooks.go of /repo is not needed and stays inert)
    cmd = ["go", "build", "-o", out]
    if race:
        cmd.insert(2, "-race")
    cmd.append(".")
    env = dict(GOENV)
    t0 = time.time()
    p = subprocess.run(cmd, cwd=HARNESS, env=env, stdout=subprocess.PIPE, stderr=subprocess.STDOUT, text=True)
    if p.returncode != 0:
        raise Infra("harness build failed:\n" + p.stdout[-4000:])
    log("[build] %s in %.1fs" % (os.path.basename(out), time.time() - t0))
    return out


def run_vh(vh, args, timeout=3600, stdout_path=None, env_extra=None, ok_codes=(0,)):
    env = dict(os.environ)
    env["VERIF_SEED"] = str(seed())
    if env_extra:
        env.update(env_extra)
    t0 = time.time()
    if stdout_path:
        with open(stdout_path, "wb") as f:
            p = subprocess.run([vh] + args, stdout=f, stderr=subprocess.PIPE, env=env, timeout=timeout)
        out = ""
    else:
        p = subprocess.run([vh] + args, stdout=subprocess.PIPE, stderr=subprocess.PIPE, env=env, timeout=timeout)
        out = p.stdout.decode("utf-8", "replace")
    err = p.stderr.decode("utf-8", "replace")
    if p.returncode not in ok_codes:
        raise Infra("harness %s exit %d:\n%s" % (" ".join(args[:3]), p.returncode, err[-4000:]))
    log("[vh] %s in %.1fs" % (" ".join(args[:4]), time.time() - t0))
    return out, err


# --------------------------------------------------------------------------------------------
# TLC


class TlcResult:
    def __init__(self):
        self.rc = None
        self.out = ""
        self.generated = 0
        self.distinct = 0
        self.depth = 0
        self.violated = None  # name of violated invariant / property, or "deadlock", "assert"...
        self.error_trace = []  # list of raw state blocks
        self.prints = []  # raw PrintT lines
        self.wall = 0.0

    def json_prints(self, tag):
        """PrintT(<<tag, ToJson(x)>>) lines -> list of decoded x."""
        res = []
        pref = '<<"%s", "' % tag
        for ln in self.prints:
            if ln.startswith(pref) and ln.endswith('">>'):
                body = ln[len(pref):-3]
                # TLA+ string escaping: \" and \\
                body = body.replace('\\"', '"').replace("\\\\", "\\")
                try:
                    res.append(json.loads(body))
                except ValueError as e:
                    raise Infra("cannot decode TLC JSON print %r: %s" % (ln[:200], e))
        return res

    def tuple_prints(self, tag):
        res = []
        pref = '<<"%s"' % tag
        for ln in self.prints:
            if ln.startswith(pref):
                res.append(ln)
        return res


_RE_STATES = re.compile(r"^(\d+) states generated, (\d+) distinct states found, (\d+) states left on queue")
_RE_DEPTH = re.compile(r"The depth of the complete state graph search is (\d+)")
_RE_INV = re.compile(r"Error: Invariant (\S+) is violated")
_RE_ACTP = re.compile(r"Error: Action property (\S+) is violated")
_RE_TEMP = re.compile(r"Error: Temporal properties were violated")
_RE_POST = re.compile(r"Error: (?:The )?[Pp]ost ?condition (\S+) (?:is|was) violated")


def scratch_dir(prefix="vtlc"):
    return tempfile.mkdtemp(prefix=prefix + "-", dir=os.environ.get("VERIF_SCRATCH", "/tmp"))


def run_tlc(module, cfg, workers=1, files=None, heap="3g", timeout=1800, simulate=None,
            extra_args=None, depth_first=False, keep=False, deadlock=None, specdir=None):
    """Run TLC on spec/<module>.tla with config text or file `cfg` in a scratch copy of the spec dir.

    files: {name: path-or-bytes} extra files placed next to the spec (traces, tables).
    simulate: e.g. "num=100" with depth in extra_args.
    """
    d = scratch_dir()
    try:
        src = specdir or SPEC
        for fn in os.listdir(src):
            if fn.endswith(".tla") or fn.endswith(".cfg"):
                shutil.copy(os.path.join(src, fn), d)
        if files:
            for name, val in files.items():
                dst = os.path.join(d, name)
                if isinstance(val, bytes):
                    with open(dst, "wb") as f:
                        f.write(val)
                elif isinstance(val, str) and os.path.exists(val):
                    # hard link when possible (traces can be large), else copy
                    try:
                        os.link(val, dst)
                    except OSError:
                        shutil.copy(val, dst)
                else:
                    with open(dst, "w") as f:
                        f.write(val)
        cfgname = cfg
        if "\n" in cfg or not cfg.endswith(".cfg"):
            cfgname = "_run.cfg"
            with open(os.path.join(d, cfgname), "w") as f:
                f.write(cfg)
        # (java.io.tmpdir inside the scratch copy: TLC creates a tlc-<n> directory per run and never removes it)
        cmd = ["java", "-Xmx" + heap, "-Xss64m", "-XX:+UseParallelGC", "-Djava.io.tmpdir=" + d]
        if depth_first:
            cmd.append("-Dtlc2.tool.queue.IStateQueue=StateDeque")
        cmd += ["-cp", TLA_CP, "tlc2.TLC", "-workers", str(workers), "-metadir", os.path.join(d, "meta"),
                "-config", cfgname]
        if deadlock is False:
            cmd.append("-deadlock")
        if simulate:
            cmd += ["-simulate", simulate]
        if extra_args:
            cmd += extra_args
        cmd.append(module + ".tla")
        t0 = time.time()
        try:
            p = subprocess.run(cmd, cwd=d, stdout=subprocess.PIPE, stderr=subprocess.STDOUT, timeout=timeout)
        except subprocess.TimeoutExpired:
            raise Infra("TLC timeout after %ds on %s/%s" % (timeout, module, cfgname))
        r = TlcResult()
        r.wall = time.time() - t0
        r.rc = p.returncode
        r.out = p.stdout.decode("utf-8", "replace")
        _parse_tlc(r)
        log("[tlc] %s %s: rc=%d gen=%d distinct=%d depth=%d %.1fs%s" % (
            module, cfgname if cfgname != "_run.cfg" else "(inline cfg)", r.rc, r.generated, r.distinct, r.depth,
            r.wall, (" VIOLATED " + r.violated) if r.violated else ""))
        return r
    finally:
        if not keep:
            shutil.rmtree(d, ignore_errors=True)


def _parse_tlc(r):
    lines = r.out.splitlines()
    i = 0
    cur = None
    while i < len(lines):
        ln = lines[i]
        m = _RE_STATES.match(ln)
        if m:
            r.generated, r.distinct = int(m.group(1)), int(m.group(2))
        m = _RE_DEPTH.search(ln)
        if m:
            r.depth = int(m.group(1))
        if ln.startswith("<<"):
            # PrintT output may wrap across lines; join until brackets balance
            buf = ln
            while buf.count("<<") > buf.count(">>") and i + 1 < len(lines):
                i += 1
                buf += lines[i].strip()
            r.prints.append(buf)
        m = _RE_INV.search(ln)
        if m:
            r.violated = m.group(1)
        m = _RE_ACTP.search(ln)
        if m:
            r.violated = m.group(1)
        if _RE_TEMP.search(ln):
            r.violated = "temporal"
        m = _RE_POST.search(ln)
        if m:
            r.violated = "post:" + m.group(1)
        if "Error: Deadlock reached" in ln:
            r.violated = "deadlock"
        if ln.startswith("State ") and ":" in ln:
            cur = [ln]
            r.error_trace.append(cur)
        elif cur is not None:
            if ln.strip() == "":
                cur = None
            else:
                cur.append(ln)
        i += 1
    ok_rc = (0,)
    if r.rc not in ok_rc and r.violated is None:
        # distinguish real crashes from violations
        tail = "\n".join(lines[-40:])
        raise Infra("TLC failed rc=%d:\n%s" % (r.rc, tail))
    if "Model checking completed" not in r.out and "Progress(" not in r.out and r.violated is None \
            and "Finished in" not in r.out and "The number of states generated" not in r.out:
        raise Infra("TLC did not complete:\n" + "\n".join(lines[-40:]))


def parallel(fns, nthreads=8):
    """Run zero-argument callables concurrently; re-raise the first Infra."""
    from concurrent.futures import ThreadPoolExecutor
    with ThreadPoolExecutor(max_workers=nthreads) as ex:
        futs = [ex.submit(f) for f in fns]
        return [f.result() for f in futs]


def record_and_validate(ck, vh, vh_args, module, cfg, trace_name, nchunks, per, heap="3g", nthreads=8, extra_env=None):
    """Run `vh <vh_args> <tracefile> <per>` nchunks times with derived seeds and validate each trace with TLC
    (SPECIFICATION in cfg must end in the accumulating `bad`/Report style).  Returns (events, [(chunk, bad-record)...], sample path reader)."""
    d = scratch_dir("vtr")
    try:
        def one(i):
            def f():
                tr = os.path.join(d, "t%d.ndjson" % i)
                env = {"VERIF_SEED": str(seed() * 1000 + i)}
                if extra_env:
                    env.update(extra_env)
                out, _ = run_vh(vh, vh_args + [tr, str(per)], env_extra=env)
                r = run_tlc(module, cfg, workers=1, files={trace_name: tr}, heap=heap, timeout=3000)
                if r.violated:
                    raise Infra("%s chunk %d: %s (trace not fully consumed or spec error)\n%s" % (module, i, r.violated, r.out[-1500:]))
                return json.loads(out.strip().splitlines()[-1]), r, tr
            return f
        res = parallel([one(i) for i in range(nchunks)], nthreads=nthreads)
        nev = 0
        bads = []
        for i, (info, r, tr) in enumerate(res):
            nev += info.get("events", 0)
            ck.add_tlc("%s chunk %d" % (module, i), r, json.dumps(info))
            for b in r.json_prints("BAD"):
                b["chunk"] = i
                b["chunk_seed"] = seed() * 1000 + i
                bads.append(b)
        samples = []
        with open(res[0][2]) as f:
            for j, ln in enumerate(f):
                if j >= 400:
                    break
                samples.append(json.loads(ln))
        return nev, bads, samples
    finally:
        shutil.rmtree(d, ignore_errors=True)


def sim_stats(r):
    """For -simulate runs: number of states generated is printed differently."""
    m = re.search(r"The number of states generated: (\d+)", r.out)
    return int(m.group(1)) if m else r.generated


# --------------------------------------------------------------------------------------------
# Known findings


def load_findings(prop):
    path = os.path.join(VERIF, "known_findings.json")
    if not os.path.exists(path):
        return []
    with open(path) as f:
        data = json.load(f)
    return [e for e in data.get("findings", []) if e.get("property") == prop and e.get("status") == "open"]


# --------------------------------------------------------------------------------------------
# Verdict + evidence


class Check:
    def __init__(self, prop, tier):
        self.prop = prop
        self.tier = tier
        self.seed = seed()
        self.t0 = time.time()
        self.violations = []  # (what, witness-dict)
        self.known = []  # strings
        self.cov = {
            "states": 0, "transitions": 0, "traces_validated_against_impl": 0, "samples": [],
            "evaluations": 0, "distinct_nontrivial": 0, "rule": "", "exhaustive": False,
            "parts": [],
        }
        self.assumptions = []

    # coverage helpers
    def add_tlc(self, name, r, note=""):
        self.cov["states"] += r.distinct
        self.cov["transitions"] += r.generated
        self.cov["parts"].append({"part": name, "kind": "tlc", "distinct_states": r.distinct,
                                  "states_generated": r.generated, "depth": r.depth, "wall_s": round(r.wall, 2),
                                  "note": note})

    def add_part(self, name, **kw):
        d = {"part": name}
        d.update(kw)
        self.cov["parts"].append(d)

    def sample(self, s):
        if len(self.cov["samples"]) < 12:
            self.cov["samples"].append(s)

    def violation(self, what, witness):
        self.violations.append((what, witness))

    def known_finding(self, text):
        if text not in self.known:
            self.known.append(text)

    def finish(self):
        os.makedirs(EVIDENCE, exist_ok=True)
        rc = 0
        for text in self.known:
            print("KNOWN-FINDING: property=%s %s" % (self.prop, text))
        if self.violations:
            os.makedirs(REPLAY, exist_ok=True)
            rc = 1
            log("%d violation(s); writing up to 5 witnesses" % len(self.violations))
            for i, (what, wit) in enumerate(self.violations[:5]):
                path = os.path.join(REPLAY, "%s-%s-%d-%d.json" % (self.prop, self.tier, self.seed, i))
                with open(path, "w") as f:
                    json.dump({"property": self.prop, "what": what, "witness": wit}, f, indent=1, default=str)
                print("VIOLATION property=%s replay=%s" % (self.prop, path))
                log("  ^ " + what)
        ev = {
            "property_id": self.prop,
            "tier": self.tier,
            "seed": self.seed,
            "level": "model_checking",
            "coverage": self.cov,
            "assumptions": self.assumptions,
            "wall_s": round(time.time() - self.t0, 2),
            "violations": len(self.violations),
            "known_findings_reported": list(self.known),
        }
        if not self.cov["samples"]:
            self.cov["samples"].append("(no sample recorded)")
        with open(os.path.join(EVIDENCE, self.prop + ".json"), "w") as f:
            json.dump(ev, f, indent=1, default=str)
        return rc


def main_wrapper(fn, prop, tier):
    try:
        return fn()
    except Infra as e:
        log("INFRA property=%s: %s" % (prop, e))
        return 2
    except subprocess.TimeoutExpired as e:
        log("INFRA property=%s: timeout %s" % (prop, e))
        return 2
    except Exception:  # any bug in the machinery is an infrastructure failure, never a verdict
        import traceback
        log("INFRA property=%s: internal error\n%s" % (prop, traceback.format_exc()))
        return 2
