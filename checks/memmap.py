# C04, C05, C11: cartridge mappers and the emulated System's memory map (spec/MemMap*.tla)
import json
import os
import shutil

import vlib
from vlib import Check, Infra, run_tlc, build_harness, run_vh, scratch_dir, log

TABLE_NAMES = ["lorom.b2p", "hirom.b2p", "exhirom.b2p", "sa1rom.b2p", "lorom.p2b", "hirom.p2b", "exhirom.p2b",
               "sa1rom.p2b", "system.read", "system.write"]

ISSUE_PROP = {
    "nonuniform": "C05", "unstable": "C05", "range": "C05", "erridentity": "C05", "errresult": "C05", "panic": "C05",
    "c04_rightinverse": "C04", "c04_collapse": "C04",
    "c11_write": "C11", "c11_agree": "C11", "system_probe": "C11", "system_create": "C11",
}

MC_CFG = """SPECIFICATION Spec
CONSTANT Dev = %s
CONSTANT Offsets = %s
INVARIANT SpecPageLinear
INVARIANT SpecWellFormed
INVARIANT SpecRightInverse
INVARIANT SpecCollapse
INVARIANT SpecAccepts
INVARIANT SpecPageAligned
INVARIANT SpecRange
INVARIANT SpecSysAgree
CHECK_DEADLOCK FALSE
"""


def offsets(tier):
    base = {0, 1, 15, 16, 255, 256, 4095, 4096, 8190, 8191}
    if tier == "thorough":
        base |= set(range(0, 8192, 61))
    return "{" + ", ".join(str(x) for x in sorted(base)) + "}"


def run(prop, tier, replay):
    ck = Check(prop, tier)
    ck.assumptions = [
        "MemMap.tla transcribes the documented region tables (DESIGN.md appendix C); TLC and the Json module are trusted",
        "page granularity is exact because the harness checks, for all 2^24 addresses x 8 functions, that every "
        "8 KiB page is 'unmapped everywhere or base+offset' (violations are reported under C05)",
    ]
    if replay:
        with open(replay) as f:
            log("replaying witness (full re-check of the page it names): " + f.read()[:2000])

    # 1. the specification itself (exhaustive over mappers x pages)
    r = run_tlc("MemMapMC", MC_CFG % ("{}", offsets(tier)), workers=8)
    if r.violated:
        raise Infra("MemMap.tla violates its own invariant %s (specification error)" % r.violated)
    ck.add_tlc("MemMapMC Dev={}", r, "4 mappers x 2048 pages x offsets " + offsets(tier)[:60])
    # non-vacuity: the original LoROM choice, as a named deviation, must be caught by the same invariants
    r2 = run_tlc("MemMapMC", MC_CFG % ('{"lorom_sram_70"}', "{0, 8191}"), workers=8)
    if r2.violated not in ("SpecCollapse", "SpecRightInverse"):
        raise Infra("self-check: deviation lorom_sram_70 was not caught by the C04 invariants (%s)" % r2.violated)
    ck.add_part("self-check deviation lorom_sram_70", kind="tlc", violated=r2.violated)

    # 2. record the real code
    extra_bads = []
    vh = build_harness()
    d = scratch_dir("vmm")
    try:
        out, _ = run_vh(vh, ["mappages", d], env_extra={"VERIF_TIER": tier})
        summ = json.loads(out)
        if prop == "C11":
            # the same probe on a System with a front end's history: header-bearing image loaded before CreateEmulator,
            # temporary overlay, by-value copy, re-creation (fresh process)
            d3 = scratch_dir("vmm3")
            try:
                out3, _ = run_vh(vh, ["mappages", d3, "sysheader"], env_extra={"VERIF_TIER": "quick"})
                summ3 = json.loads(out3)
                r5 = run_tlc("MemMapTrace", "MemMapTrace.cfg", workers=8, files={"pages.ndjson": os.path.join(d3, "pages.ndjson")})
                if r5.violated:
                    raise Infra("MemMapTrace (re-created System) stopped unexpectedly: " + r5.violated)
                ck.add_tlc("MemMapTrace (System re-created from a copied, header-bearing, overlaid System)", r5, "10 tables x 2048 pages")
                extra_bads = [b for b in r5.json_prints("BAD")]
                summ["issues"] = (summ.get("issues") or []) + [i for i in (summ3.get("issues") or []) if ISSUE_PROP.get(i["kind"]) == "C11"]
            finally:
                shutil.rmtree(d3, ignore_errors=True)
        if prop in ("C04", "C05"):
            # a second, fresh process that touches the functions in the opposite order (pak->bus first, mappers reversed):
            # its tables are judged by TLC as well and its issues are added
            d2 = scratch_dir("vmm2")
            try:
                out2, _ = run_vh(vh, ["mappages", d2, "nosystem"], env_extra={"VERIF_TIER": tier, "VERIF_ORDER": "pakfirst"})
                summ2 = json.loads(out2)
                r4 = run_tlc("MemMapTrace", "MemMapTrace.cfg", workers=8, files={"pages.ndjson": os.path.join(d2, "pages.ndjson")})
                if r4.violated:
                    raise Infra("MemMapTrace (pak-first process) stopped unexpectedly: " + r4.violated)
                ck.add_tlc("MemMapTrace (real page tables, pak->bus-first process)", r4, "8 tables x 2048 pages")
                extra_bads = [b for b in r4.json_prints("BAD")]
                summ["issues"] = (summ.get("issues") or []) + (summ2.get("issues") or [])
            finally:
                shutil.rmtree(d2, ignore_errors=True)
        # 3. TLC judges the recorded tables
        r3 = run_tlc("MemMapTrace", "MemMapTrace.cfg", workers=8, files={"pages.ndjson": os.path.join(d, "pages.ndjson")})
        if r3.violated:
            raise Infra("MemMapTrace stopped unexpectedly: " + r3.violated)
        ck.add_tlc("MemMapTrace (real page tables)", r3, "10 tables x 2048 pages recorded from the real code")
        with open(os.path.join(d, "pages.ndjson")) as f:
            lines = f.readlines()
        for i in (0, 4 * 2048 + 1848, 8 * 2048 + 4, 9 * 2048 + 1008):
            e = json.loads(lines[i])
            e["table"] = TABLE_NAMES[e["t"]]
            ck.sample(e)
    finally:
        shutil.rmtree(d, ignore_errors=True)

    # C11 with history: interleaved reads/writes through mirrored addresses and direct array stores
    if prop == "C11":
        from vlib import record_and_validate
        nchunks, per = (4, 2500) if tier == "quick" else (8, 20000)
        nev_s, bads_s, samples_s = record_and_validate(ck, vh, ["sysseq", "record"], "SystemTrace", "SystemTrace.cfg", "sys.ndjson", nchunks, per)
        for b in bads_s:
            ev = b["ev"]
            ck.violation("mirror sequence chunk %d line %d: bus %s at $%06X %s %s but the cell LoROM designates (%s) holds another value" % (
                b["chunk"], b["line"], ev["k"], ev.get("a", 0), "returned" if ev["k"] in ("rd", "rd24") else "shows", ev["v"], b.get("cell")), b)
        for e in samples_s[:5]:
            ck.sample(e)
        ck.add_part("mirror-coherence sequences (SystemTrace.tla)", kind="tlc-trace", events=nev_s, groups=nchunks * per)

    bads = r3.json_prints("BAD") + extra_bads
    mine = [b for b in bads if b["prop"] == prop]
    for b in mine:
        b["table"] = TABLE_NAMES[b["t"]]
        ck.violation("%s: %s (table %s page %d)" % (b["prop"], b["what"], b["table"], b["page"]), b)
    for it in (summ.get("issues") or []):
        if ISSUE_PROP.get(it["kind"]) == prop:
            ck.violation("%s %s %s at %#x: %s" % (it["kind"], it["map"], it.get("dir", ""), it["addr"], it["detail"]), it)
    drift = [p for p in r3.tuple_prints("NOTE")]
    ck.cov["traces_validated_against_impl"] = {"C04": 8, "C05": 8, "C11": 2}[prop]
    ck.cov["evaluations"] = {"C04": summ["sweep_rightinv_n"] + summ["sweep_collapse_n"],
                             "C05": 8 * (1 << 24), "C11": 2 * (1 << 24)}[prop]
    ck.cov["distinct_nontrivial"] = {"C04": summ["sweep_rightinv_n"] + summ["sweep_collapse_n"],
                                     "C05": 8 * (1 << 24),
                                     "C11": summ["system"].get("addresses_both_memory", 0)}[prop]
    ck.cov["rule"] = {
        "C04": "every bus address that maps (right inverse) and every pak address that is accepted (collapse), 4 mappers, "
               "evaluated directly on the real functions AND by TLC on the recorded page tables",
        "C05": "all 2^24 addresses x 4 mappers x 2 directions swept for the page lemma, error identity and zero result; "
               "TLC compares the recorded tables with the documented region table",
        "C11": "all 2^24 bus addresses read and written through emulator.System's bus; non-trivial = addresses that both "
               "the system and the real LoROM mapper consider ROM/SRAM/WRAM",
    }[prop]
    ck.cov["exhaustive"] = True
    ck.add_part("go sweep", kind="impl", issue_counts=summ.get("issue_counts"), system=summ.get("system"),
                sysmap_drift_pages=len(drift))
    return ck.finish()
