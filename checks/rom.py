# C09, C10: snes.ROM / snes.Header (spec/Rom*.tla)
import json
import os
import shutil

from vlib import Check, Infra, run_tlc, build_harness, run_vh, scratch_dir, SPEC, parallel, seed, log

KIND_PROP = {"new": "C09", "hparse": "C09", "readhdr": "C09", "writehdr": "C09", "ser": "C09", "open": "C10", "read": "C10", "write": "C10"}


def cfg_with(name, repl):
    s = open(os.path.join(SPEC, name)).read()
    for a, b in repl.items():
        assert a in s, a
        s = s.replace(a, b)
    return s


def run(prop, tier, replay):
    ck = Check(prop, tier)
    ck.assumptions = [
        "Rom.tla: header layout transcribed from the documented cartridge addresses $FFB0-$FFFF; 4-byte fields are word pairs (TLC ints are 32-bit)",
        "the bus window end follows the code and the baseline test TestROM_BusReader_Fail_Boundary (last byte of a bank excluded)",
        "domain: images of whole 32 KiB banks, bus addresses inside the image, reads of at least one byte",
    ]
    # 1. exhaustive MC of the state machine with small constants
    if prop == "C10":
        ops = "6" if tier == "quick" else "7"
        r = run_tlc("RomMC", cfg_with("RomMC_io.cfg", {"MaxOps = 6": "MaxOps = " + ops}), workers=16, heap="6g")
        if r.violated:
            raise Infra("Rom.tla (io) violates its own invariant " + r.violated)
        ck.add_tlc("RomMC_io", r, "HalfBank=8, 3 banks, 2 handles, 8 bus addresses, lengths 1..3, <= %s ops" % ops)
        r2 = run_tlc("RomMC", cfg_with("RomMC_io.cfg", {"Dev = {}": 'Dev = {"silent_partial"}'}), workers=16, heap="6g")
        if r2.violated != "ReadBack":
            raise Infra("self-check: deviation silent_partial not caught by ReadBack (%s)" % r2.violated)
        ck.add_part("self-check deviation silent_partial", kind="tlc", violated=r2.violated)
    else:
        ops = "3" if tier == "quick" else "4"
        r = run_tlc("RomMC", cfg_with("RomMC_hdr.cfg", {"MaxOps = 4": "MaxOps = " + ops}), workers=16, heap="8g", timeout=3000)
        if r.violated:
            raise Infra("Rom.tla (header) violates its own invariant " + r.violated)
        ck.add_tlc("RomMC_hdr", r, "header at HalfBank=96; pokes at 13 offsets x {0,$33,$FF}, 4 settable fields, <= %s ops" % ops)

    # 2. histories recorded from the real code, validated by TLC (parallel chunks)
    vh = build_harness()
    nchunks = 8 if tier == "quick" else 16
    per = 400 if tier == "quick" else 2500
    d = scratch_dir("vrom")
    try:
        def one(i):
            def f():
                tr = os.path.join(d, "rom%d.ndjson" % i)
                out, _ = run_vh(vh, ["rom", "record", tr, str(per)], env_extra={"VERIF_SEED": str(seed() * 1000 + i)})
                r = run_tlc("RomTrace", "RomTrace.cfg", workers=1, files={"rom.ndjson": tr}, heap="3g", timeout=3000)
                if r.violated:
                    raise Infra("RomTrace chunk %d: %s" % (i, r.violated))
                return json.loads(out), r, tr
            return f
        res = parallel([one(i) for i in range(nchunks)], nthreads=8)
        nev = 0
        for i, (info, r, tr) in enumerate(res):
            nev += info["events"]
            ck.add_tlc("RomTrace chunk %d" % i, r, "%d events / %d scenarios" % (info["events"], info["scenarios"]))
            notes = r.tuple_prints("NOTE")
            if notes:
                log("note (outside the listed properties): %d events where Header.Score/ROMSizeBytes/RAMSizeBytes differ from Rom.tla" % len(notes))
                ck.add_part("extra coverage notes chunk %d" % i, notes=len(notes))
            for b in r.json_prints("BAD"):
                p = KIND_PROP.get(b["ev"]["k"], "C09")
                if p == prop:
                    ev = b["ev"]
                    short = {k: ev[k] for k in ev if k not in ("init", "fields")}
                    ck.violation("chunk %d line %d: real %s outcome is not what Rom.tla prescribes: %s" % (
                        i, b["line"], ev["k"], json.dumps(short)[:400]), {"chunk_seed": seed() * 1000 + i, "line": b["line"], "event": ev})
        with open(res[0][2]) as f:
            for j, ln in enumerate(f):
                e = json.loads(ln)
                if (prop == "C09" and e["k"] in ("writehdr", "ser", "readhdr")) or (prop == "C10" and e["k"] in ("open", "read", "write")):
                    e.pop("fields", None)
                    ck.sample(e)
                if len(ck.cov["samples"]) >= 6:
                    break
        ck.cov["traces_validated_against_impl"] = nchunks * per
        ck.cov["evaluations"] = nev
        ck.cov["distinct_nontrivial"] = nev
        ck.cov["rule"] = ("seeded random histories on real ROM objects: %d scenarios (1 in 40 with a >4 MiB image and banks >= $80), "
                          "8-31 actions each among ReadHeader/WriteHeader/field edits/serialise/image pokes/open reader|writer/"
                          "read/write, lengths biased to end within 3 bytes of the window end; every event carries the full image diff" % (nchunks * per))
    finally:
        shutil.rmtree(d, ignore_errors=True)
    return ck.finish()
