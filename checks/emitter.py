# C03, C06, C07, C15, C16, C19: asm.Emitter (spec/Emitter*.tla)
import json
import os

from vlib import Check, Infra, run_tlc, build_harness, run_vh, SPEC, record_and_validate, log

# which properties an aspect of disagreement (EmitterTrace.tla Why) speaks about
def props_of(b):
    ev, why = b["ev"], set(b["why"])
    out = set()
    k = ev["k"]
    m = ev.get("m", "")
    label_m = m in ("Label", "BNE", "BEQ", "BPL", "BMI", "BCC", "BCS", "BRA", "JMP_abs", "SetBase")
    for w in why:
        if w in ("refused_guard", "flags", "cpu"):
            out.add("C07")
        if w in ("refused_cap",):
            out.add("C19")
        if w in ("refused_label", "labels", "d8", "d16", "ret") or w.startswith("finalize"):
            out.add("C06")
        if w in ("lines", "listing"):
            out.add("C15")
        if w in ("append_refusal",):
            out.add("C16")
        if w in ("decode",):
            out.add("C03")
        if w in ("bytes", "n", "addr", "code", "refused_spurious"):
            if m == "EmitBytes":
                out.add("C19")
            elif label_m:
                out.add("C06")
            else:
                out.add("C03")
            if k == "state":
                out.add("C19" if ev.get("id") == 2 else "C03")
        if w in ("base", "baseSet", "cap", "gen"):
            out.add("C16" if ev.get("id") == 1 else "C15")
    if ev.get("id") == 1 or ev.get("after") in ("append", "clone"):
        out.add("C16")
    if ev.get("id") == 2:
        out.add("C19")
    if not out:
        out.add("C03")
    return out


PROFILES = {
    "C03": [("decode", 1200, 6000), ("general", 150, 1500)],
    "C06": [("general", 400, 3000)],
    "C07": [("straight", 300, 2500), ("general", 100, 800)],
    "C15": [("general", 400, 3000)],
    "C16": [("general", 400, 3000)],
    "C19": [("general", 400, 3000)],
}


def run(prop, tier, replay):
    ck = Check(prop, tier)
    ck.assumptions = [
        "Emitter.tla's method table is written from the method names and resolved through ISA.tla (WDC opcode matrix)",
        "domain: program within one bank, base set at most once before the first emission; Finalize/listings only on emitters with a target buffer; "
        "listings only for programs that fit (no call refused for capacity)",
    ]
    thorough = tier == "thorough"
    vh = build_harness()
    # completeness guard: every instruction-emitting method of the real type must be classified by the spec
    out, _ = run_vh(vh, ["emit", "methods"])
    real_methods = set(json.loads(out))
    r = run_tlc("EmitterTable", "EmitterTable.cfg", workers=1)
    tbl = r.json_prints("METHODS")
    if not tbl:
        raise Infra("EmitterTable did not print the method table")
    spec_methods = {m["name"]: m for m in tbl[0]}
    if real_methods - set(spec_methods):
        raise Infra("Emitter.tla does not classify new API methods: %s" % sorted(real_methods - set(spec_methods)))
    ck.add_part("method table", spec_methods=len(spec_methods), real_methods=len(real_methods),
                missing_in_real=sorted(set(spec_methods) - real_methods))

    nchunks = 8 if not thorough else 16
    total_ev = 0
    total_sc = 0
    for (profile, q, t) in PROFILES[prop]:
        per = q if not thorough else t
        nev, bads, samples = record_and_validate(ck, vh, ["emit", "random", profile], "EmitterTrace", "EmitterTrace.cfg",
                                                 "emit.ndjson", nchunks, per, heap="3g")
        total_ev += nev
        total_sc += nchunks * per
        for b in bads:
            ps = props_of(b)
            if prop in ps:
                ev = b["ev"]
                short = {k: (ev[k] if len(json.dumps(ev[k])) < 160 else json.dumps(ev[k])[:160] + "...") for k in ev}
                ck.violation("profile %s chunk %d line %d: real Emitter disagrees with Emitter.tla on %s: %s" % (
                    profile, b["chunk"], b["line"], ",".join(b["why"]), json.dumps(short)[:600]), b)
        for e in samples:
            if len(ck.cov["samples"]) < 6 and e["k"] in ("call", "finalize", "hex", "cpu", "decode", "append"):
                s = {k: e[k] for k in e if k in ("k", "m", "a", "refused", "bytes", "err", "which", "fetches", "pri", "id", "n", "addr", "flags")}
                ck.sample(s)
    ck.cov["traces_validated_against_impl"] = total_sc
    ck.cov["evaluations"] = total_ev
    ck.cov["distinct_nontrivial"] = total_ev
    ck.cov["rule"] = "seeded random scenarios on real emitters (profiles %s), one validated event per call" % [p[0] for p in PROFILES[prop]]
    return ck.finish()
