# C03, C06, C07, C15, C16, C19: asm.Emitter (spec/Emitter*.tla)
import json
import os

from vlib import Check, Infra, run_tlc, build_harness, run_vh, SPEC, record_and_validate, log

# which properties an aspect of disagreement (EmitterTrace.tla Why) speaks about
def props_of(b):
    ev, why = b["ev"], set(b["why"])
    out = set()
    k = ev["k"]
    m = ev.get("m", "")
    label_m = m in ("Label", "BNE", "BEQ", "BPL", "BMI", "BCC", "BCS", "BRA", "JMP_abs", "SetBase")
    for w in why:
        if w == "observer_panic":    # Bytes()/Len()/PC()/listing accessor of a valid emitter panicked: every emitter property relies on them
            out.update(("C03", "C06", "C07", "C15", "C16", "C19"))
        if w in ("refused_guard", "flags", "cpu"):
            out.add("C07")
        if w in ("refused_cap",):
            out.add("C19")
            if not ev.get("refused"):
                out.add("C07")   # the assembler accepted (and so reports as an instruction start) what did not fit
        if w in ("refused_label", "labels", "ret") or w.startswith("finalize"):
            out.add("C06")
        if w in ("listing",):
            out.add("C15")
        if w in ("append_refusal",) or w.startswith("twin_"):
            out.add("C16")
        if w in ("decode",):
            out.add("C03")
        if w == "addr" and k == "call" and not label_m and m not in ("EmitBytes", "Comment", "AssumeREP", "AssumeSEP"):
            out.add("C07")   # PC() is how the assembler reports instruction starts
        if w in ("bytes", "n", "addr", "code", "refused_spurious"):
            if m == "EmitBytes":
                out.add("C19")
            elif label_m:
                out.add("C06")
            else:
                out.add("C03")
            if k == "state":
                out.add("C19" if ev.get("id") == 2 else "C03")
            if k in ("hex", "text"):
                out.add("C15")
        if w in ("base", "cap"):
            out.add("C16" if ev.get("id") == 1 else "C15")
    if ev.get("id") in (1, 4, 5) or ev.get("after") in ("append", "clone", "preappend", "append_refused"):
        out.add("C16")
    if ev.get("after") == "append_refused":
        out.add("C19")   # a block that does not fit is refused as a whole, leaving bytes, length, PC and labels as they were
    if ev.get("id") == 2:
        out.add("C19")
    if k == "call" and ev.get("refused") and not any(w.startswith("refused_") for w in why):
        out.add("C19")   # "refused as a whole, leaving bytes, length, PC and labels exactly as they were"
    if not out:
        out.add("C03")
    return out


# exhaustive configurations of EmitterMC.tla per property: (cfg, depth quick, depth thorough, export depth quick, export depth thorough)
MC = {
    "C03": [("EmitterMC_widths.cfg", 4, 5, 3, 4)],
    "C06": [("EmitterMC_labels.cfg", 5, 6, 4, 5)],
    "C07": [("EmitterMC_widths.cfg", 4, 5, 3, 4)],
    "C15": [("EmitterMC_listing.cfg", 4, 5, 3, 4)],
    "C16": [("EmitterMC_clone.cfg", 3, 4, 3, 3)],
    "C19": [("EmitterMC_cap.cfg", 4, 5, 3, 4)],
}
# named deviations (the repository's original behaviour) that each property's invariants must catch
SELFCHECK = {
    "C15": [("EmitterMC_listing.cfg", "db_bytecount", 3, ("ListingComplete", "ListingAddresses")),
            ("EmitterMC_listing.cfg", "label_before_base", 3, ("ListingOrder",))],
    "C16": [("EmitterMC_clone.cfg", "append_base", 3, ("CloneAppendEquivalent",))],
}


def cfg_text(name, depth, dev=None, export=False):
    s = open(os.path.join(SPEC, name)).read()
    import re
    s = re.sub(r"Depth = \d+", "Depth = %d" % depth, s)
    if dev:
        s = s.replace("Dev = {}", 'Dev = {"%s"}' % dev)
    if export:
        s = s.replace("DoExport = FALSE", "DoExport = TRUE")
    return s


PROFILES = {
    "C03": [("decode", 1200, 6000), ("general", 150, 1500), ("rebase", 150, 1000)],
    "C06": [("general", 400, 3000), ("labels", 400, 3000), ("far", 1, 3)],
    "C07": [("straight", 300, 2500), ("general", 100, 800)],
    "C15": [("general", 400, 3000), ("farlist", 1, 2)],
    "C16": [("general", 400, 3000), ("labels", 300, 2000)],
    "C19": [("general", 400, 3000), ("rebase", 250, 1500)],
}


def report(ck, prop, bads, where):
    for b in bads:
        if prop in props_of(b):
            ev = b["ev"]
            short = {k: (ev[k] if len(json.dumps(ev[k])) < 160 else json.dumps(ev[k])[:160] + "...") for k in ev}
            ck.violation("%s chunk %d line %d: real Emitter disagrees with Emitter.tla on %s: %s" % (
                where, b["chunk"], b["line"], ",".join(b["why"]), json.dumps(short)[:600]), b)


def replay_scenarios(ck, vh, scen, nchunks, name):
    """Run TLC-exported scenarios on the real emitter and validate the recorded log with EmitterTrace."""
    import shutil
    from vlib import scratch_dir, parallel
    d = scratch_dir("vrep")
    try:
        nchunks = max(1, min(nchunks, len(scen) // 50 or 1))
        parts = [scen[i::nchunks] for i in range(nchunks)]

        def one(i):
            def f():
                sp = os.path.join(d, "s%d.ndjson" % i)
                with open(sp, "w") as fh:
                    for s in parts[i]:
                        fh.write(json.dumps(s) + "\n")
                tr = os.path.join(d, "t%d.ndjson" % i)
                out, _ = run_vh(vh, ["emit", "run", sp, tr])
                r = run_tlc("EmitterTrace", "EmitterTrace.cfg", workers=1, files={"emit.ndjson": tr}, heap="3g", timeout=5000)
                if r.violated:
                    raise Infra("EmitterTrace (%s) chunk %d: %s" % (name, i, r.violated))
                return json.loads(out.strip().splitlines()[-1]), r
            return f
        res = parallel([one(i) for i in range(nchunks)], nthreads=8)
        nev, bads = 0, []
        tot_gen = tot_dis = 0
        wall = 0.0
        for i, (info, r) in enumerate(res):
            nev += info["events"]
            tot_gen += r.generated
            tot_dis += r.distinct
            wall = max(wall, r.wall)
            for b in r.json_prints("BAD"):
                b["chunk"] = i
                bads.append(b)
        ck.cov["states"] += tot_dis
        ck.cov["transitions"] += tot_gen
        ck.add_part(name, kind="tlc-trace", scenarios=len(scen), events=nev, chunks=nchunks, wall_s=round(wall, 1))
        if scen:
            ck.sample({"replayed_scenario": scen[len(scen) // 2]})
        return nev, bads
    finally:
        shutil.rmtree(d, ignore_errors=True)


def run(prop, tier, replay):
    ck = Check(prop, tier)
    ck.assumptions = [
        "Emitter.tla's method table is written from the method names and resolved through ISA.tla (WDC opcode matrix)",
        "domain: program within one bank, base set at most once before the first emission; Finalize/listings only on emitters with a target buffer; "
        "listings only for programs that fit (no call refused for capacity)",
    ]
    thorough = tier == "thorough"
    vh = build_harness()
    # completeness guard: every instruction-emitting method of the real type must be classified by the spec
    out, _ = run_vh(vh, ["emit", "methods"])
    real_methods = set(json.loads(out))
    r = run_tlc("EmitterTable", "EmitterTable.cfg", workers=1)
    tbl = r.json_prints("METHODS")
    if not tbl:
        raise Infra("EmitterTable did not print the method table")
    spec_methods = {m["name"]: m for m in tbl[0]}
    # methods added to the real API since the table was written are reported (not modelled, never called by the generators);
    # everything the specification does classify is still checked
    unclassified = sorted(real_methods - set(spec_methods))
    os.environ["VERIF_EMIT_KNOWN"] = ",".join(sorted(real_methods & set(spec_methods)))
    if unclassified:
        print("[note] real Emitter methods not classified by Emitter.tla (not exercised): %s" % unclassified)
    ck.add_part("method table", spec_methods=len(spec_methods), real_methods=len(real_methods),
                missing_in_real=sorted(set(spec_methods) - real_methods), unclassified_in_spec=unclassified)

    # exhaustive model checking of the specification, and non-vacuity through the named deviations
    for (cfg, dq, dt, eq, et) in MC[prop]:
        r = run_tlc("EmitterMC", cfg_text(cfg, dt if thorough else dq), workers=16, heap="12g", timeout=5000)
        if r.violated:
            raise Infra("Emitter.tla violates its own invariant %s in %s" % (r.violated, cfg))
        ck.add_tlc("EmitterMC " + cfg, r, "depth %d" % (dt if thorough else dq))
    for (cfg, dev, depth, expect) in SELFCHECK.get(prop, []):
        r = run_tlc("EmitterMC", cfg_text(cfg, depth, dev=dev), workers=16, heap="8g", timeout=3000)
        if r.violated not in expect:
            raise Infra("self-check: deviation %s not caught by %s (got %s)" % (dev, expect, r.violated))
        ck.add_part("self-check deviation " + dev, kind="tlc", violated=r.violated)

    if prop == "C03":
        # exhaustive operand sweep of the real methods against the table exported from Emitter.tla
        import tempfile
        tf = tempfile.NamedTemporaryFile("w", suffix=".json", delete=False)
        json.dump(tbl[0], tf)
        tf.close()
        try:
            out, _ = run_vh(vh, ["emitsweep", tf.name, tier], timeout=5000)
        finally:
            os.unlink(tf.name)
        sw = json.loads(out)
        ck.add_part("operand sweep of every emitting method against the TLC-exported table", kind="impl",
                    calls=sw["calls"], methods=sw["methods"], mismatches=sw["mismatches"])
        for m in sw.get("examples") or []:
            ck.violation("method %s(%#x) under widths M8=%d X8=%d: %s: emitted %s, canonical encoding %s" % (
                m["m"], m["arg"], m["widths"] >> 1, m["widths"] & 1, m["what"], m["got"], m["want"]), m)
        ck.cov["evaluations"] += sw["calls"]
        ck.cov["distinct_nontrivial"] += sw["calls"]

    nchunks = 8 if not thorough else 16
    total_ev = 0
    total_sc = 0
    # REPLAY: every maximal behaviour of the small-scope model is executed on the real emitter
    for (cfg, dq, dt, eq, et) in MC[prop]:
        r = run_tlc("EmitterMC", cfg_text(cfg, et if thorough else eq, export=True), workers=8, heap="8g", timeout=5000)
        if r.violated:
            raise Infra("export run violated " + r.violated)
        scen = r.json_prints("BEH")
        if not scen:
            raise Infra("no behaviours exported from " + cfg)
        extra = [{"m": "Hex", "a": []}, {"m": "Text", "a": []}, {"m": "Finalize", "a": []}, {"m": "Hex", "a": []}, {"m": "State", "a": []}]
        if prop == "C07":
            extra = [{"m": "Cpu", "a": []}]
        for s in scen:
            fin = any(c["m"] == "Finalize" for c in s["calls"])
            s["calls"] = s["calls"] + ([x for x in extra if x["m"] != "Finalize"] if fin else extra)
        nev, bads = replay_scenarios(ck, vh, scen, nchunks, "replay " + cfg)
        total_ev += nev
        total_sc += len(scen)
        report(ck, prop, bads, "replay of %s" % cfg)
    for (profile, q, t) in PROFILES[prop]:
        per = q if not thorough else t
        nev, bads, samples = record_and_validate(ck, vh, ["emit", "random", profile], "EmitterTrace", "EmitterTrace.cfg",
                                                 "emit.ndjson", nchunks, per, heap="3g")
        total_ev += nev
        total_sc += nchunks * per
        report(ck, prop, bads, "profile " + profile)
        for e in samples:
            if len(ck.cov["samples"]) < 6 and e["k"] in ("call", "finalize", "hex", "cpu", "decode", "append"):
                s = {k: e[k] for k in e if k in ("k", "m", "a", "refused", "bytes", "err", "which", "fetches", "pri", "id", "n", "addr", "flags")}
                if len(json.dumps(s)) < 3000:
                    ck.sample(s)
    ck.cov["traces_validated_against_impl"] = total_sc
    ck.cov["evaluations"] += total_ev
    ck.cov["distinct_nontrivial"] += total_ev
    ck.cov["rule"] = "seeded random scenarios on real emitters (profiles %s), one validated event per call" % [p[0] for p in PROFILES[prop]]
    return ck.finish()
