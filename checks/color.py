# C17: color15 (spec/Color*.tla)
import json
import os
import shutil

from vlib import Check, Infra, run_tlc, build_harness, run_vh, scratch_dir, SPEC, log


def run(prop, tier, replay):
    ck = Check(prop, tier)
    ck.assumptions = ["Color.tla states floor(ch*m/d) limited to 31 per channel; TLC's integer arithmetic is trusted",
                      "divisor 0 is outside the property's domain and is never passed"]
    # 1. specification, exhaustive per channel (32 x 256 x 255) and per colour word (2^16)
    r = run_tlc("ColorMC", "ColorMC.cfg", workers=8)
    if r.violated:
        raise Infra("Color.tla violates its own invariant " + r.violated)
    ck.add_tlc("ColorMC", r, "32x256 scale states (255 divisors inside), 65536 colour states, 65536 byte-pair states")
    cfg = open(os.path.join(SPEC, "ColorMC.cfg")).read().replace("Dev = {}", 'Dev = {"narrow_before_clamp"}')
    r2 = run_tlc("ColorMC", cfg, workers=8)
    if r2.violated not in ("InvFloor", "InvMonoM", "InvIdentity", "InvAntiD"):
        raise Infra("self-check: deviation narrow_before_clamp not caught (%s)" % r2.violated)
    ck.add_part("self-check deviation narrow_before_clamp", kind="tlc", violated=r2.violated)

    vh = build_harness()
    d = scratch_dir("vcol")
    try:
        # 2. tables exported from the spec -> exhaustive sweep of the real functions
        rt = run_tlc("ColorTable", "ColorTable.cfg", workers=1, keep=True, heap="4g")
        # run_tlc(keep=True) leaves its scratch dir; find the exported files
        tdir = None
        for ln in rt.out.splitlines():
            if ln.startswith("Parsing file ") and ln.rstrip().endswith("ColorTable.tla"):
                tdir = os.path.dirname(ln[len("Parsing file "):].strip())
        if not tdir or not os.path.exists(os.path.join(tdir, "scale.json")):
            raise Infra("ColorTable did not export its tables")
        try:
            out, _ = run_vh(vh, ["color", "sweep", os.path.join(tdir, "scale.json"), os.path.join(tdir, "lum.json"), tier],
                            timeout=3000)
        finally:
            shutil.rmtree(tdir, ignore_errors=True)
        sw = json.loads(out)
        ck.add_part("sweep of real MulDiv/ToRGB/ToColor15/Luminosity against TLC-exported tables", kind="impl", **{
            k: sw[k] for k in ("muldiv_calls", "colours", "triples", "mismatches")})
        for m in sw.get("examples") or []:
            ck.violation("real %s(c=%#x, m=%d, d=%d) = %#x, specification says %#x" % (
                m["what"], m["c"], m["m"], m["d"], m["got"], m["want"]), m)
        # 3. sampled real calls validated by TLC
        n = 100000 if tier == "quick" else 400000
        tr = os.path.join(d, "color.ndjson")
        run_vh(vh, ["color", "record", tr, str(n)])
        r3 = run_tlc("ColorTrace", "ColorTrace.cfg", workers=1, files={"color.ndjson": tr}, heap="4g")
        if r3.violated:
            raise Infra("ColorTrace: %s (trace not fully consumed?)" % r3.violated)
        ck.add_tlc("ColorTrace (recorded real calls)", r3, "%d events" % n)
        for b in r3.json_prints("BAD"):
            ck.violation("recorded call disagrees with Color.tla at line %d: %s" % (b["line"], json.dumps(b["ev"])), b)
        with open(tr) as f:
            for i, ln in enumerate(f):
                if i in (0, 5, 6, 7):
                    ck.sample(json.loads(ln))
        ck.cov["traces_validated_against_impl"] = n
        ck.cov["evaluations"] = sw["muldiv_calls"] + sw["triples"] + 65536 + n
        ck.cov["distinct_nontrivial"] = sw["muldiv_calls"]
        ck.cov["rule"] = ("MulDiv: %d colours x 256 x 255 (all 65536 colours in thorough; in quick every channel value alone / "
                          "with the other channels saturated / all equal / bit 15 set + 4096 random colours); packing: all 2^16 "
                          "colours and all 2^24 byte triples" % sw["colours"])
        ck.cov["exhaustive"] = tier == "thorough"
    finally:
        shutil.rmtree(d, ignore_errors=True)
    return ck.finish()
