# C12, RunUntil part (spec/RunLoop.tla, RunLoopTrace.tla); called from cpu.py
import json
import os

from vlib import Infra, run_tlc, record_and_validate


def extra(ck, tier, vh):
    thorough = tier == "thorough"
    r = run_tlc("RunLoop", "RunLoop.cfg", workers=8, heap="4g")
    if r.violated:
        raise Infra("RunLoop.tla violates " + r.violated)
    ck.add_tlc("RunLoop (RunUntil loop, liveness under weak fairness, MinCycles=1)", r,
               "PCs 0..3, budgets 0..5, cycles 1..3; Termination + NeverExecutesTarget, OnlyWhileUnderBudget, ReturnsTrueIffAtTarget, ...")
    nchunks, per = (8, 1500) if not thorough else (16, 12000)
    nev, bads, samples = record_and_validate(ck, vh, ["run", "record"], "RunLoopTrace", "RunLoopTrace.cfg", "run.ndjson", nchunks, per)
    for b in bads:
        if b["ev"]["k"] in ("pair", "textpair"):
            continue        # traced vs untraced / Logger kinds: that is C14's statement, judged by its own check
        ck.violation("RunUntil chunk %d line %d: %s: %s" % (b["chunk"], b["line"], b["why"], json.dumps(b["ev"])[:300]), b)
    k = 0
    for e in samples:
        if e["k"] == "begin" and k < 2:
            e["prog"] = " ".join("%02x" % v for _, v in e["prog"])
            ck.sample(e)
            k += 1
    ck.cov["traces_validated_against_impl"] += nchunks * per
    ck.cov["evaluations"] += nev
    ck.cov["distinct_nontrivial"] += nev
    ck.add_part("RunUntil runs on the real System", kind="impl", runs=nchunks * per, events=nev)
