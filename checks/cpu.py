# C01, C02, C08, C12(step part): both 65C816 interpreters (spec/Cpu65816.tla, CpuTrace.tla)
import json
import os
import shutil

from vlib import Check, Infra, run_tlc, build_harness, run_vh, scratch_dir, parallel, seed, load_findings, log

# recording modes of `vh cpu record` per property: (mode, events quick, events thorough)
PLAN = {
    "C01": [("native", 48000, 600000), ("top", 12000, 150000), ("dec", 12000, 100000), ("chain", 16000, 300000), ("prog", 16000, 300000)],
    "C02": [("irq", 8000, 100000), ("any", 40000, 500000), ("chainany", 16000, 300000), ("native", 16000, 200000), ("dec", 8000, 100000), ("prog", 8000, 200000)],
    "C08": [("top", 48000, 800000), ("any", 24000, 300000), ("chainany", 8000, 200000)],
    "C12": [("any", 32000, 400000), ("native", 16000, 200000), ("chainany", 16000, 300000), ("irq", 8000, 100000)],
}


def aspect_props(w):
    if w.endswith("_emu_model") or w.endswith("_irq_model"):
        return set()     # emulation-mode / IRQ-dispatch semantics as implemented: specified, but no listed property speaks about them
    if w.endswith("_model"):
        return {"C01"}
    if "_known_" in w:
        return {"C01"}
    if w.endswith("_panic") and not w.startswith("equiv"):
        return {"C08", "C01"}
    if w.startswith("equiv"):
        return {"C02"}
    if w.split("_", 1)[-1] in ("cyc0", "acct", "stopret", "stopflag", "stoplost", "wdmcb"):
        return {"C12"}
    return {"C01"}


def opcode_of(ev):
    pre = ev["pre"]
    a = pre["K"] * 65536 + pre["PC"]
    for x in ev["ov"]:
        if x[0] == a:
            return x[1]
    s = ev["seed"]
    return ((a * 31) + ((a >> 8) * 17) + ((a >> 16) * 7) + s) & 0xFF


def step_checks(ck, prop, tier, vh):
    thorough = tier == "thorough"
    d = scratch_dir("vcpu")
    try:
        jobs = []
        for (mode, q, t) in PLAN[prop]:
            n = t if thorough else q
            per = 4000 if not thorough else 20000
            k = 0
            while n > 0:
                jobs.append((mode, min(per, n), len(jobs)))
                n -= per
                k += 1

        def one(job):
            mode, n, idx = job

            def f():
                tr = os.path.join(d, "c%d.ndjson" % idx)
                out, _ = run_vh(vh, ["cpu", "record", mode, tr, str(n)], env_extra={"VERIF_SEED": str(seed() * 10000 + idx)})
                r = run_tlc("CpuTrace", "CpuTrace.cfg", workers=1, files={"cpu.ndjson": tr}, heap="3g", timeout=6000)
                if r.violated:
                    raise Infra("CpuTrace %s chunk %d: %s\n%s" % (mode, idx, r.violated, r.out[-1200:]))
                sample = None
                with open(tr) as fh:
                    sample = json.loads(fh.readline())
                os.remove(tr)
                return mode, idx, json.loads(out.strip().splitlines()[-1]), r, sample
            return f
        res = parallel([one(j) for j in jobs], nthreads=14)
        nev = 0
        per_mode = {}
        known = {}
        notes = {}
        opcodes = set()
        gen = dis = 0
        for (mode, idx, info, r, sample) in res:
            nev += info["events"]
            per_mode[mode] = per_mode.get(mode, 0) + info["events"]
            gen += r.generated
            dis += r.distinct
            if len(ck.cov["samples"]) < 5 and sample:
                ck.sample({"mode": mode, "pre": sample["pre"], "opcode": opcode_of(sample), "pri_post": sample["pri"]["post"],
                           "pri_wr": sample["pri"]["wr"], "cyc": [sample["pri"]["cyc"], sample["alt"]["cyc"]]})
            for b in r.json_prints("BAD"):
                ev = b["ev"]
                op = opcode_of(ev)
                for w in b["why"]:
                    if not aspect_props(w):
                        notes[w.split("_", 1)[1]] = notes.get(w.split("_", 1)[1], 0) + 1
                    if prop not in aspect_props(w):
                        continue
                    if "_known_" in w:
                        dev = w.split("_known_")[1]
                        known.setdefault(dev, 0)
                        known[dev] += 1
                        continue
                    ck.violation("%s chunk %d line %d: %s at opcode $%02X: pre=%s pri=%s alt=%s" % (
                        mode, idx, b["line"], w, op, json.dumps(ev["pre"]), json.dumps(ev["pri"])[:300], json.dumps(ev["alt"])[:300]),
                        {"mode": mode, "chunk_seed": seed() * 10000 + idx, "line": b["line"], "why": b["why"], "event": ev})
        ck.cov["states"] += dis
        ck.cov["transitions"] += gen
        ck.add_part("CpuTrace (both real interpreters, one event per Step)", kind="tlc-trace", events=nev, per_mode=per_mode, chunks=len(jobs),
                    notes_outside_listed_properties=notes)
        if notes:
            print("[note] steps that differ from the as-implemented emulation-mode / IRQ model of Cpu65816.tla (no listed property): %s" % notes)
        ck.cov["traces_validated_against_impl"] += nev
        ck.cov["evaluations"] += nev
        ck.cov["distinct_nontrivial"] += nev
        # known findings: only those listed as open in known_findings.json may be absorbed
        open_ids = {f["id"]: f for f in load_findings(prop)}
        for dev, cnt in known.items():
            if dev in open_ids:
                ck.known_finding("%s: %s" % (dev, open_ids[dev]["text"]))
            else:
                ck.violation("behaviour matches deviation %s, which is not an open known finding" % dev, {"deviation": dev, "count": cnt})
        return nev
    finally:
        shutil.rmtree(d, ignore_errors=True)


def mc_and_replay(ck, prop, tier, vh, trace=False):
    """Exhaustive CpuMC run (specification-level invariants) and replay of every exported corner pre-state on both real CPUs."""
    import re
    from vlib import SPEC
    thorough = tier == "thorough"
    nc = 60 if not thorough else 420
    base = open(os.path.join(SPEC, "CpuMC.cfg")).read()
    d = scratch_dir("vcmc")
    try:
        evs = []
        for emu in ([False, True] if prop in ("C02", "C08", "C12", "C14") else [False]):
            cfg = re.sub(r"NCorners = \d+", "NCorners = %d" % nc, base).replace("DoExport = FALSE", "DoExport = TRUE")
            if emu:
                cfg = cfg.replace("Emu = FALSE", "Emu = TRUE")
            r = run_tlc("CpuMC", cfg, workers=12, heap="8g", timeout=6000)
            if r.violated or r.tuple_prints("FAILED"):
                raise Infra("Cpu65816.tla violates its own invariant: %s %s" % (r.violated, r.tuple_prints("FAILED")[:3]))
            ck.add_tlc("CpuMC (256 opcodes x widths x %d corners, Emu=%s)" % (nc, emu), r,
                       "TypeOK, AddrInRange, WritesBounded, OnlyListedFree, BinaryIsDeterminate, PCAdvance")
            evs += r.json_prints("EV")
        evs.sort(key=lambda e: e["seed"])
        nchunks = 12
        parts = [evs[i * len(evs) // nchunks:(i + 1) * len(evs) // nchunks] for i in range(nchunks)]

        def one(i):
            def f():
                ip = os.path.join(d, "in%d.ndjson" % i)
                with open(ip, "w") as fh:
                    for e in parts[i]:
                        fh.write(json.dumps(e) + "\n")
                tr = os.path.join(d, "mc%d.ndjson" % i)
                out, _ = run_vh(vh, ["cpu", "trace-replay" if trace else "replay", ip, tr], env_extra={"VERIF_SEED": str(seed() * 77 + i)})
                r = run_tlc("CpuTrace", "CpuTrace.cfg", workers=1, files={"cpu.ndjson": tr}, heap="3g", timeout=6000)
                if r.violated:
                    raise Infra("CpuTrace (replay) chunk %d: %s" % (i, r.violated))
                os.remove(tr)
                return r
            return f
        res = parallel([one(i) for i in range(nchunks)], nthreads=12)
        bads = []
        for i, r in enumerate(res):
            ck.cov["states"] += r.distinct
            ck.cov["transitions"] += r.generated
            for b in r.json_prints("BAD"):
                b["chunk"] = i
                bads.append(b)
        ck.add_part("replay of CpuMC corner pre-states on both real interpreters", kind="tlc-trace", events=len(evs))
        ck.cov["traces_validated_against_impl"] += len(evs)
        ck.cov["evaluations"] += len(evs)
        ck.cov["distinct_nontrivial"] += len(evs)
        return bads
    finally:
        shutil.rmtree(d, ignore_errors=True)


def prog_mc_and_replay(ck, prop, tier, vh):
    """CpuProgMC: all programs of <= Depth instructions over the width-switch alphabet; every maximal behaviour is replayed."""
    import re
    from vlib import SPEC
    depth = 3 if tier == "quick" else 4
    base = open(os.path.join(SPEC, "CpuProgMC.cfg")).read()
    cfg = re.sub(r"Depth = \d+", "Depth = %d" % depth, base)
    r = run_tlc("CpuProgMC", cfg, workers=12, heap="12g", timeout=6000)
    if r.violated:
        raise Infra("Cpu65816.tla violates %s along a program" % r.violated)
    ck.add_tlc("CpuProgMC (all programs of %d instructions over 24 templates x 4 start states)" % depth, r, "TypeOK, MemOK on every intermediate state")
    r2 = run_tlc("CpuProgMC", cfg.replace("DoExport = FALSE", "DoExport = TRUE"), workers=12, heap="12g", timeout=6000)
    progs = r2.json_prints("PROG")
    if not progs:
        raise Infra("CpuProgMC exported no programs")
    d = scratch_dir("vprg")
    try:
        nchunks = 12
        parts = [progs[i::nchunks] for i in range(nchunks)]

        def one(i):
            def f():
                ip = os.path.join(d, "p%d.ndjson" % i)
                with open(ip, "w") as fh:
                    for e in parts[i]:
                        fh.write(json.dumps(e) + "\n")
                tr = os.path.join(d, "pr%d.ndjson" % i)
                out, _ = run_vh(vh, ["cpu", "progreplay", ip, tr], env_extra={"VERIF_SEED": str(seed() * 91 + i)})
                rr = run_tlc("CpuTrace", "CpuTrace.cfg", workers=1, files={"cpu.ndjson": tr}, heap="3g", timeout=6000)
                if rr.violated:
                    raise Infra("CpuTrace (program replay) chunk %d: %s" % (i, rr.violated))
                os.remove(tr)
                return json.loads(out.strip().splitlines()[-1]), rr
            return f
        res = parallel([one(i) for i in range(nchunks)], nthreads=12)
        bads = []
        nev = 0
        for i, (info, rr) in enumerate(res):
            nev += info["events"]
            ck.cov["states"] += rr.distinct
            ck.cov["transitions"] += rr.generated
            for b in rr.json_prints("BAD"):
                b["chunk"] = i
                bads.append(b)
        ck.add_part("replay of CpuProgMC programs on both real interpreters", kind="tlc-trace", programs=len(progs), events=nev)
        ck.sample({"replayed_program": progs[len(progs) // 3]})
        ck.cov["traces_validated_against_impl"] += len(progs)
        ck.cov["evaluations"] += nev
        ck.cov["distinct_nontrivial"] += nev
        return bads
    finally:
        shutil.rmtree(d, ignore_errors=True)


def report_bads(ck, prop, bads, where):
    known = {}
    for b in bads:
        ev = b["ev"]
        op = opcode_of(ev)
        for w in b["why"]:
            if "_line_" in w:
                continue
            if prop not in aspect_props(w):
                continue
            if "_known_" in w:
                dev = w.split("_known_")[1]
                known[dev] = known.get(dev, 0) + 1
                continue
            ck.violation("%s chunk %d line %d: %s at opcode $%02X: pre=%s pri=%s alt=%s" % (
                where, b["chunk"], b["line"], w, op, json.dumps(ev["pre"]), json.dumps(ev["pri"])[:300], json.dumps(ev["alt"])[:300]),
                {"where": where, "line": b["line"], "why": b["why"], "event": ev})
    open_ids = {f["id"]: f for f in load_findings(prop)}
    for dev, cnt in known.items():
        if dev in open_ids:
            ck.known_finding("%s: %s" % (dev, open_ids[dev]["text"]))
        else:
            ck.violation("behaviour matches deviation %s, which is not an open known finding" % dev, {"deviation": dev, "count": cnt})


def run(prop, tier, replay):
    ck = Check(prop, tier)
    ck.assumptions = [
        "Cpu65816.tla is my transcription of the WDC programming model (DESIGN appendix A); contested corners are left free: "
        "V and invalid-BCD results in decimal mode, PC after WAI/STP",
        "domain: native mode for the model comparison, no pending interrupt, stack/direct page not overlapping the instruction bytes",
        "non-authoritative register copies are loaded with junk only where junk is reachable",
    ]
    vh = build_harness()
    report_bads(ck, prop, mc_and_replay(ck, prop, tier, vh), "CpuMC replay")
    if prop in ("C01", "C02"):
        report_bads(ck, prop, prog_mc_and_replay(ck, prop, tier, vh), "CpuProgMC replay")
    step_checks(ck, prop, tier, vh)
    if prop == "C12":
        import runloop
        runloop.extra(ck, tier, vh)
    ck.cov["rule"] = ("single Step() of both real interpreters from seeded boundary-biased states, opcodes cycled 0..255 (modes %s), "
                      "plus lock-step chains through Fill-pattern programs and width-switch-rich programs; every event judged by TLC" %
                      [m for m, _, _ in PLAN[prop]])
    return ck.finish()
