# C14: execution tracing (spec/Disasm.tla via CpuTrace.tla, RunLoopTrace.tla pair events)
import json
import os
import shutil

from vlib import Check, Infra, run_tlc, build_harness, run_vh, scratch_dir, parallel, seed, record_and_validate
import cpu as cpuchk


def run(prop, tier, replay):
    ck = Check(prop, tier)
    ck.assumptions = [
        "Disasm.tla derives a trace line from Cpu65816.tla's state and ISA.tla; rendering is compared after normalisation "
        "(lower case, no blanks, 'Sn'->'s', the '$(' typo of the primary (d,S),Y form tolerated); BRK may be shown with or without its signature byte",
        "non-perturbation: the same scenario is run through System.RunUntil with and without a Logger from identical initial state",
    ]
    thorough = tier == "thorough"
    vh = build_harness()
    d = scratch_dir("vtrc")
    try:
        plan = [("trace-native", 32000, 300000), ("trace-any", 16000, 200000), ("trace-chain", 12000, 200000), ("trace-prog", 8000, 100000)]
        jobs = []
        for (mode, q, t) in plan:
            n = t if thorough else q
            per = 4000 if not thorough else 20000
            while n > 0:
                jobs.append((mode, min(per, n), len(jobs)))
                n -= per

        def one(job):
            mode, n, idx = job

            def f():
                tr = os.path.join(d, "c%d.ndjson" % idx)
                out, _ = run_vh(vh, ["cpu", "record", mode, tr, str(n)], env_extra={"VERIF_SEED": str(seed() * 10000 + idx)})
                r = run_tlc("CpuTrace", "CpuTrace.cfg", workers=1, files={"cpu.ndjson": tr}, heap="3g", timeout=6000)
                if r.violated:
                    raise Infra("CpuTrace %s chunk %d: %s" % (mode, idx, r.violated))
                with open(tr) as fh:
                    sample = json.loads(fh.readline())
                os.remove(tr)
                return mode, idx, json.loads(out.strip().splitlines()[-1]), r, sample
            return f
        res = parallel([one(j) for j in jobs], nthreads=14)
        nev = 0
        for (mode, idx, info, r, sample) in res:
            nev += info["events"]
            ck.cov["states"] += r.distinct
            ck.cov["transitions"] += r.generated
            if len(ck.cov["samples"]) < 4 and sample.get("line"):
                ck.sample({"pre": sample["pre"], "pri_line": sample["line"]["pri"]["raw"], "alt_line": sample["line"]["alt"]["raw"]})
            for b in r.json_prints("BAD"):
                for w in b["why"]:
                    if "_line_" in w:
                        ev = b["ev"]
                        ck.violation("%s chunk %d line %d: %s: trace line does not describe the instruction about to execute: pre=%s line=%s" % (
                            mode, idx, b["line"], w, json.dumps(ev["pre"]), json.dumps(ev.get("line"))[:500]),
                            {"mode": mode, "chunk_seed": seed() * 10000 + idx, "line": b["line"], "why": b["why"], "event": ev})
        ck.add_part("trace lines of both disassemblers judged by Disasm.tla", kind="tlc-trace", events=nev, chunks=len(jobs))
        # exhaustive corner pre-states exported by TLC from CpuMC.tla, with the trace lines of both disassemblers
        for b in cpuchk.mc_and_replay(ck, prop, tier, vh, trace=True):
            for w in b["why"]:
                if "_line_" in w:
                    ev = b["ev"]
                    ck.violation("CpuMC replay chunk %d line %d: %s: pre=%s line=%s" % (b["chunk"], b["line"], w, json.dumps(ev["pre"]), json.dumps(ev.get("line"))[:500]),
                                 {"line": b["line"], "why": b["why"], "event": ev})
    finally:
        shutil.rmtree(d, ignore_errors=True)
    # non-perturbation pairs
    nchunks, per = (8, 1500) if not thorough else (16, 12000)
    nev2, bads, samples = record_and_validate(ck, vh, ["run", "record"], "RunLoopTrace", "RunLoopTrace.cfg", "run.ndjson", nchunks, per)
    for b in bads:
        if b["ev"]["k"] in ("pair", "textpair"):
            ck.violation("RunUntil chunk %d line %d: %s: %s" % (b["chunk"], b["line"], b["why"], json.dumps(b["ev"])[:500]), b)
    for e in samples:
        if e["k"] == "pair" and len(ck.cov["samples"]) < 6:
            ck.sample(e)
    ck.cov["traces_validated_against_impl"] = nev + nchunks * per
    ck.cov["evaluations"] = nev + nev2
    ck.cov["distinct_nontrivial"] = nev + nchunks * per
    ck.cov["rule"] = ("one trace line per real Step of both interpreters (all 256 opcodes cycled, native and emulation states, chains), "
                      "plus %d RunUntil scenarios run traced and untraced" % (nchunks * per))
    return ck.finish()
