# C18: independent instances across goroutines (spec/Instances.tla, InstancesTrace.tla)
import json
import os
import shutil

from vlib import Check, Infra, run_tlc, build_harness, run_vh, scratch_dir, log


def run(prop, tier, replay):
    ck = Check(prop, tier)
    ck.assumptions = [
        "TLC enumerates schedules at operation granularity (3 instances x 3 slots, a slot = up to 8 operations, one CPU Step each); interleavings INSIDE one "
        "operation are only sampled by the free-running goroutines under the Go race detector",
        "an instance's observable state is reduced to a digest after every operation (registers, cycle totals, memory arrays, emitted bytes, both listings, image bytes)",
    ]
    thorough = tier == "thorough"
    r = run_tlc("Instances", "Instances.cfg", workers=4, heap="4g")
    if r.violated:
        raise Infra("Instances.tla violates " + r.violated)
    ck.add_tlc("Instances (all interleavings of 3 instances x 3 slots)", r, "NonInterference, SharedReadOnly, Independence")
    scheds = r.json_prints("SCHED")
    if len(scheds) != 1680:
        raise Infra("expected 1680 schedules, got %d" % len(scheds))
    if not thorough:
        scheds = scheds[::4]
    vh = build_harness()
    vhr = build_harness(race=True)
    d = scratch_dir("vinst")
    try:
        sp = os.path.join(d, "sched.json")
        with open(sp, "w") as f:
            json.dump(scheds, f)
        tr = os.path.join(d, "inst.ndjson")
        out, _ = run_vh(vh, ["inst", "sched", sp, tr], timeout=3000)
        info = json.loads(out.strip().splitlines()[-1])
        # free-running goroutines under the race detector
        tr2 = os.path.join(d, "free.ndjson")
        g = "16" if not thorough else "64"
        out2, err2 = run_vh(vhr, ["inst", "free", tr2, g], timeout=3000, ok_codes=(0, 66), env_extra={"GORACE": "halt_on_error=0 exitcode=66"})
        races = err2.count("WARNING: DATA RACE")
        info2 = json.loads(out2.strip().splitlines()[-1])
        with open(tr, "a") as f:
            f.write(open(tr2).read())
            f.write(json.dumps({"k": "race", "n": races, "report": err2[:3000]}) + "\n")
        r2 = run_tlc("InstancesTrace", "InstancesTrace.cfg", workers=1, files={"inst.ndjson": tr}, heap="3g", timeout=3000)
        if r2.violated:
            raise Infra("InstancesTrace: " + r2.violated)
        ck.add_tlc("InstancesTrace (observations from real objects)", r2,
                   "%d scheduled + %d free-running observations, %d data-race reports" % (info["events"], info2["events"], races))
        for b in r2.json_prints("BAD"):
            ev = b["ev"]
            if ev["k"] == "race":
                ck.violation("the race detector reported %d data race(s) between goroutines that own separate instances:\n%s" % (ev["n"], ev["report"][:1500]), ev)
            else:
                ck.violation("instance %s#%d observes %d after its operation %d in run %d (%s) but %d when run alone" % (
                    ev["kind"], ev["inst"], ev["got"], ev["seq"], ev["run"], ev["mode"], ev["solo"]), ev)
        with open(tr) as f:
            for i, ln in enumerate(f):
                if i in (0, 40, 700):
                    ck.sample(json.loads(ln))
        ck.sample({"schedule": scheds[len(scheds) // 2]})
        ck.cov["traces_validated_against_impl"] = len(scheds) + int(g)
        ck.cov["evaluations"] = info["events"] + info2["events"]
        ck.cov["distinct_nontrivial"] = info["events"] + info2["events"]
        ck.cov["rule"] = ("%d TLC-generated schedules executed deterministically over 6 kind assignments (System, cpualt CPU, Emitter, ROM), "
                          "%s goroutines free-running under -race with concurrent mapper/colour calls" % (len(scheds), g))
    finally:
        shutil.rmtree(d, ignore_errors=True)
    return ck.finish()
