# C13: emulator/bus.Bus (spec/Bus*.tla)
import json
import os

from vlib import Check, Infra, run_tlc, build_harness, SPEC, record_and_validate


def cfg_with(name, repl):
    s = open(os.path.join(SPEC, name)).read()
    for a, b in repl.items():
        assert a in s, a
        s = s.replace(a, b)
    return s


def run(prop, tier, replay):
    ck = Check(prop, tier)
    ck.assumptions = ["domain: 24-bit addresses, dump buffer at least as long as the range, start <= end",
                      "memories are instrumented doubles that record the address/value they receive"]
    thorough = tier == "thorough"
    r = run_tlc("BusMC", cfg_with("BusMC_attach.cfg", {"NBlocks = 3": "NBlocks = 4", "Mems = {1, 2}": "Mems = {1, 2, 3}"} if thorough else {}),
                workers=16, heap="6g", timeout=3000)
    if r.violated:
        raise Infra("Bus.tla (attach) violates its own invariant " + r.violated)
    ck.add_tlc("BusMC_attach", r, "all sequences of <= 3 Attach calls over aligned+misaligned ranges")
    r = run_tlc("BusMC", cfg_with("BusMC_ops.cfg", {"NBlocks = 4": "NBlocks = 5"} if thorough else {}), workers=16, heap="8g", timeout=3000)
    if r.violated:
        raise Infra("Bus.tla (ops) violates its own invariant " + r.violated)
    ck.add_tlc("BusMC_ops", r, "every routing table x every Dump(s,e) / Read / Write")
    r2 = run_tlc("BusMC", cfg_with("BusMC_ops.cfg", {"Dev = {}": 'Dev = {"dump_unaligned"}'}), workers=16, heap="6g")
    if r2.violated != "DumpIsPointwise":
        raise Infra("self-check: deviation dump_unaligned not caught (%s)" % r2.violated)
    ck.add_part("self-check deviation dump_unaligned", kind="tlc", violated=r2.violated)

    vh = build_harness()
    nchunks, per = (8, 500) if not thorough else (16, 4000)
    nev, bads, samples = record_and_validate(ck, vh, ["bus", "record"], "BusTrace", "BusTrace.cfg", "bus.ndjson", nchunks, per)
    for b in bads:
        ev = b["ev"]
        short = {k: (ev[k] if k != "data" else ev[k][:48]) for k in ev}
        ck.violation("chunk %d line %d: real %s outcome is not what Bus.tla prescribes: %s" % (
            b["chunk"], b["line"], ev["k"], json.dumps(short)[:500]), b)
    for e in samples[:60]:
        if e["k"] in ("attach", "dump", "read") and len(ck.cov["samples"]) < 6:
            if "data" in e:
                e["data"] = e["data"][:40]
            ck.sample(e)
    ck.cov["traces_validated_against_impl"] = nchunks * per
    ck.cov["evaluations"] = nev
    ck.cov["distinct_nontrivial"] = nev
    ck.cov["rule"] = ("%d seeded bus histories (6-25 calls each) on the real 2^20-block bus around block 0, the top of the address "
                      "space, bank ends and random places: overlapping/adjacent/re-attached/misaligned Attach ranges, reads, writes, "
                      "dumps with unaligned starts/ends across memories and holes" % (nchunks * per))
    return ck.finish()
