------------------------------- MODULE RunLoop -------------------------------
(***************************************************************************)
(* emulator.System.RunUntil(target, budget) around CPU.Step (C12):         *)
(*                                                                         *)
(*   for consumed := 0; consumed < budget; {                               *)
(*      log the instruction at PC (if a Logger is attached)                *)
(*      if PC = target: break                                              *)
(*      [OnPC callback for PC]  n := Step()   consumed += n                *)
(*   }                                                                     *)
(*   return PC = target                                                    *)
(*                                                                         *)
(* Step is abstract here: it consumes cyc >= MinCycles cycles and moves PC *)
(* anywhere.  Termination of RunUntil genuinely depends on MinCycles >= 1  *)
(* (with MinCycles = 0 TLC finds the lasso), which is why C12 also demands *)
(* "every Step reports at least one cycle" of the real interpreters.       *)
(***************************************************************************)
EXTENDS Integers, Sequences, TLC

CONSTANTS PCs, MaxBudget, MinCycles, MaxCycles, Logging

VARIABLES pc, target, budget, consumed, phase, execd, logged, result
vars == <<pc, target, budget, consumed, phase, execd, logged, result>>

Init == /\ pc \in PCs /\ target \in PCs /\ budget \in 0..MaxBudget
        /\ consumed = 0 /\ phase = "top" /\ execd = <<>> /\ logged = <<>> /\ result = "none"

Top  == /\ phase = "top"
        /\ IF consumed < budget
           THEN /\ phase' = "cmp" /\ logged' = IF Logging THEN Append(logged, pc) ELSE logged
                /\ UNCHANGED <<result>>
           ELSE /\ phase' = "returned" /\ result' = (pc = target) /\ UNCHANGED logged
        /\ UNCHANGED <<pc, target, budget, consumed, execd>>
Cmp  == /\ phase = "cmp"
        /\ IF pc = target THEN phase' = "returned" /\ result' = TRUE ELSE phase' = "exec" /\ UNCHANGED result
        /\ UNCHANGED <<pc, target, budget, consumed, execd, logged>>
Exec == /\ phase = "exec"
        /\ \E c \in MinCycles..MaxCycles, p \in PCs :
             /\ consumed' = consumed + c /\ pc' = p /\ execd' = Append(execd, [pc |-> pc, at |-> consumed])
        /\ phase' = "top"
        /\ UNCHANGED <<target, budget, logged, result>>
Next == Top \/ Cmp \/ Exec
Spec == Init /\ [][Next]_vars /\ WF_vars(Next)

Termination == <>(phase = "returned")
NeverExecutesTarget == \A i \in 1..Len(execd) : execd[i].pc # target
OnlyWhileUnderBudget == \A i \in 1..Len(execd) : execd[i].at < budget
ReturnsTrueIffAtTarget == phase = "returned" => (result = (pc = target))
ExitReason == phase = "returned" => (pc = target \/ consumed >= budget)
\* a run that starts at the target executes nothing (needs budget > 0 to even look)
NothingIfAlreadyThere == (phase = "returned" /\ Len(execd) > 0) => execd[1].pc # target
LogBeforeEveryInstruction == Logging => \A i \in 1..Len(execd) : i <= Len(logged) /\ logged[i] = execd[i].pc
=============================================================================
