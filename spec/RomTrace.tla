------------------------------- MODULE RomTrace -------------------------------
(* Validates histories recorded from REAL snes.ROM objects (vh rom record) against Rom.tla.    *)
(* One event per line; "new" starts a fresh ROM (trace reset).  Style: accumulating with       *)
(* re-synchronisation -- the specification state follows the logged real state (image diff,    *)
(* parsed fields, handle positions), and the line number joins `bad` whenever the real outcome *)
(* is not the one Rom.tla prescribes for that action in that state.                            *)
EXTENDS Rom, Json

Trace == ndJsonDeserialize("rom.ndjson")

VARIABLES l, bad, seed, size, ov, hdr, hs
vars == <<l, bad, seed, size, ov, hdr, hs>>

Pairs2Fn(ps) == [o \in { ps[i][1] : i \in 1..Len(ps) } |->
                   LET i == CHOOSE i \in 1..Len(ps) : ps[i][1] = o IN ps[i][2]]
Apply(o, ps) == IF Len(ps) = 0 THEN o ELSE
                [x \in DOMAIN o \cup { ps[i][1] : i \in 1..Len(ps) } |->
                   IF \E i \in 1..Len(ps) : ps[i][1] = x
                   THEN LET i == CHOOSE i \in 1..Len(ps) : ps[i][1] = x IN ps[i][2]
                   ELSE o[x]]
SameImage(o1, o2, sd) == \A x \in DOMAIN o1 \cup DOMAIN o2 : Get(o1, sd, x) = Get(o2, sd, x)
HdrBytes(o, sd) == Slice(o, sd, HdrOff, HdrLen)
NoDiff(e) == Len(e.diff) = 0

\* io.Writer contract as C10 states it: all bytes and their count, or an error (never silent partial);
\* what is stored lies inside the window, contiguously from the current position.
\* (a payload too long to ever fit is logged as its length "plen" only; its bytes follow the pattern the harness uses)
WriteOK(e, h) ==
  LET p == IF "plen" \in DOMAIN e THEN [i \in 1..e.plen |-> (i * 7 + 3) % 256] ELSE e.p
      real == Apply(ov, e.diff)
  IN IF h.kind = "err" THEN e.err = "ueof" /\ e.n = 0 /\ NoDiff(e)
     ELSE LET avail == h.end - (h.start + h.pos) IN
          /\ e.n \in 0..Len(p)
          /\ (Len(p) <= avail) => (e.err = "nil" /\ e.n = Len(p))
          /\ (Len(p) > avail) => (e.err # "nil" /\ e.n <= (IF avail < 0 THEN 0 ELSE avail))
          /\ e.err = "nil" => e.n = Len(p)
          /\ SameImage(real, IF e.n = 0 THEN ov ELSE PutSeq(ov, h.start + h.pos, SubSeq(p, 1, e.n)), seed)

ReadOK(e, h) ==
  LET r == ReadRes(h, ov, seed, e.n) IN
  /\ NoDiff(e)
  /\ e.err = r.err
  /\ e.data = r.data

Ok(e) ==
  CASE e.k = "new"      -> e.err = FALSE => (/\ NoDiff(e)
                                            /\ LET h == Parse(HdrBytes(Pairs2Fn(e.init), e.seed)) IN
                                               e.ver = h.ver /\ e.fields = h.f)
    [] e.k = "readhdr"  -> LET h == Parse(HdrBytes(ov, seed)) IN
                           NoDiff(e) /\ e.err = "nil" /\ e.ver = h.ver /\ e.fields = h.f
    [] e.k = "writehdr" -> /\ e.err = "nil"
                           /\ SameImage(Apply(ov, e.diff),
                                        PutSeq(ov, HdrOff, WriteBack(HdrBytes(ov, seed), hdr)), seed)
    [] e.k = "ser"      -> NoDiff(e) /\ e.err = "nil" /\ e.bytes = Serialize(hdr)
    [] e.k = "open"     -> NoDiff(e) /\ ~e.panic
    [] e.k = "read"     -> ~e.panic /\ (e.h \in DOMAIN hs => ReadOK(e, hs[e.h]))
    [] e.k = "hparse"   -> LET h == Parse(Slice(ov, seed, e.pos, HdrLen)) IN      \* a header parsed from any 80 bytes of the image
                           NoDiff(e) /\ ~e.panic /\ e.err = "nil" /\ e.ver = h.ver /\ e.fields = h.f
    [] e.k = "write"    -> ~e.panic /\ (e.h \in DOMAIN hs => WriteOK(e, hs[e.h]))
    [] OTHER            -> TRUE     \* poke / setfield are harness actions

Init == l = 1 /\ bad = {} /\ seed = 0 /\ size = 0 /\ ov = <<>> /\ hdr = [ver |-> 0, f |-> <<>>] /\ hs = <<>>

Next ==
  /\ l <= Len(Trace)
  /\ LET e == Trace[l] IN
     /\ bad' = IF Ok(e) THEN bad ELSE bad \cup {l}
     /\ l' = l + 1
     /\ IF e.k = "new"
        THEN /\ seed' = e.seed /\ size' = e.size /\ hs' = <<>>
             /\ ov' = Apply(Pairs2Fn(e.init), e.diff)
             /\ hdr' = IF e.err THEN hdr ELSE [ver |-> e.ver, f |-> e.fields]
        ELSE /\ UNCHANGED <<seed, size>>
             /\ ov' = IF e.k = "poke" THEN Put(ov, e.off, e.val) ELSE Apply(ov, e.diff)
             /\ hdr' = CASE e.k = "readhdr"  -> [ver |-> e.ver, f |-> e.fields]
                         [] e.k = "setfield" -> [hdr EXCEPT !.f[e.name] = e.val]
                         [] OTHER            -> hdr
             /\ hs' = CASE e.k = "open" /\ ~e.panic ->
                             [x \in DOMAIN hs \cup {e.h} |-> IF x = e.h THEN Handle(e.kind, e.bus) ELSE hs[x]]
                        [] e.k \in {"read", "write"} /\ e.h \in DOMAIN hs ->
                             [hs EXCEPT ![e.h].pos = @ + (IF e.k = "read" THEN Len(e.data) ELSE e.n)]
                        [] OTHER -> hs

Spec == Init /\ [][Next]_vars

\* extra coverage beyond the listed properties (reported as notes, never as violations)
ExtraOK(e) == ("score" \in DOMAIN e) =>
   LET h == [ver |-> e.ver, f |-> e.fields] IN
   /\ e.score = <<Score(h, 32688), Score(h, 65456), Score(h, 4259760), Score(h, 0)>>
   /\ e.romsz = SizeBytes(e.fields["ROMSize"]) /\ e.ramsz = SizeBytes(e.fields["RAMSize"])
Notes == l = Len(Trace) + 1 => \A i \in 1..Len(Trace) : ExtraOK(Trace[i]) \/ PrintT(<<"NOTE", "score/size helper differs from Rom.tla", i>>)
Report == l = Len(Trace) + 1 =>
            \A i \in bad : PrintT(<<"BAD", ToJson([line |-> i, ev |-> Trace[i]])>>)
Consumed == TLCGet("stats").diameter - 1 = Len(Trace)
=============================================================================
