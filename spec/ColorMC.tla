------------------------------- MODULE ColorMC -------------------------------
(* Exhaustive check of Color.tla: one state per (channel value, multiplicand) with all 255   *)
(* divisors quantified inside the invariants (2.1e6 Scale evaluations per invariant), and one *)
(* state per 16-bit colour word for packing.                                                  *)
EXTENDS Color
VARIABLES kind, x, y
vars == <<kind, x, y>>
Init == \/ kind = "scale" /\ x \in 0..31 /\ y \in 0..255
        \/ kind = "colour" /\ x \in 0..65535 /\ y = 0
        \/ kind = "bytes" /\ x \in 0..255 /\ y \in 0..255
Next == UNCHANGED vars
Spec == Init /\ [][Next]_vars

InvRange    == kind = "scale" => ScaleInRange(x, y)
InvFloor    == kind = "scale" => ScaleFloor(x, y)
InvIdentity == kind = "scale" => ScaleIdentity(x, y)
InvMonoM    == kind = "scale" => ScaleMonotoneM(x, y)
InvAntiD    == kind = "scale" => ScaleAntitoneD(x, y)
InvPackUnpack == kind = "colour" => PackUnpack(x)
InvMulDivBit15 == kind = "colour" => \A md \in {<<0, 1>>, <<1, 1>>, <<255, 1>>, <<255, 30>>, <<31, 32>>, <<7, 255>>} :
                                        MulDivNoBit15(x, md[1], md[2])
InvUnpackPack == kind = "bytes" => \A z \in {0, 1, 31, 32, 33, 127, 128, 255} : UnpackPack(x, y, z) /\ UnpackPack(z, x, y)
=============================================================================
