------------------------------ MODULE MemMapMC ------------------------------
(* Exhaustive check of the MemMap specification itself, one state per (mapper, 8 KiB page).   *)
(* Offsets inside a page range over Offsets (corners in the quick tier, denser in thorough).   *)
EXTENDS MemMap

CONSTANT Offsets          \* set of offsets 0..8191 evaluated inside every page
VARIABLES mi, pg
vars == <<mi, pg>>

Init == mi \in 1..4 /\ pg \in 0..(NPages - 1)
Next == UNCHANGED vars
Spec == Init /\ [][Next]_vars

m      == Mappers[mi]
Fb(a)  == B2P(m, a)
Fp(p)  == RefP2B(m, p)
Addr(k) == pg * PageSize + k

SpecPageLinear  == \A k \in Offsets : PageLinearAt(Fb, pg, k) /\ PageLinearAt(Fp, pg, k)
SpecWellFormed  == \A k \in Offsets : WellFormedAt(m, Fb, Addr(k))
SpecRightInverse == \A k \in Offsets : RightInverseAt(Fb, Fp, Addr(k))
SpecCollapse    == \A k \in Offsets : CollapseAt(Fb, Fp, Addr(k))
SpecAccepts     == \A k \in Offsets : AcceptsExactly(Fp, Addr(k))
SpecPageAligned == LET b == Fb(Addr(0))  a == Fp(Addr(0)) IN
                   (b # Unmapped => b % PageSize = 0) /\ (a # Unmapped => a % PageSize = 0)
SpecRange       == \A k \in Offsets : Fb(Addr(k)) \in -1..(Top - 1) /\ Fp(Addr(k)) \in -1..(Top - 1)
\* C11 at spec level: the attach list composed with "last attach wins" agrees with the LoROM table
SpecSysAgree    == mi = 1 => \A k \in Offsets : AgreeAt(SysMap, LoROM, Addr(k))
\* every memory class of the system is reached somewhere (non-vacuity of SpecSysAgree is shown by coverage)
=============================================================================
