SPECIFICATION Spec
CONSTANT Dev = {}
