-------------------------------- MODULE RomMC --------------------------------
(* Exhaustive exploration of the Rom.tla state machine with small constants.                 *)
(*  - RomMC_io.cfg : HalfBank = 8, 3 banks, 2 handles, reads/writes of 1..MaxLen bytes (C10)   *)
(*  - RomMC_hdr.cfg: HalfBank = 96, 1 bank, header actions over a byte alphabet chosen to      *)
(*                   switch header versions (C09)                                              *)
EXTENDS Rom

CONSTANTS NBanks, MaxLen, MaxOps, Handles, BusAddrs, HdrMode, PokeOffs, PokeVals, SetNames

VARIABLES ov, hdr, hs, wrote, last, nops, synced
vars == <<ov, hdr, hs, wrote, last, nops, synced>>

Size == NBanks * HalfBank
Seed == 3
HdrBytes(o) == Slice(o, Seed, HdrOff, HdrLen)
Closed == [kind |-> "none", start |-> 0, end |-> 0, pos |-> 0]

Init == /\ ov = [o \in {} |-> 0]
        /\ hdr = IF HdrMode THEN Parse(HdrBytes(ov)) ELSE [ver |-> 0, f |-> <<>>]
        /\ hs = [h \in Handles |-> Closed]
        /\ wrote = [h \in Handles |-> <<>>]
        /\ last = [act |-> "init", h |-> 0, before |-> ov]
        /\ nops = 0
        /\ synced = HdrMode

Step(act, h) == /\ nops < MaxOps /\ nops' = nops + 1 /\ last' = [act |-> act, h |-> h, before |-> ov]

Open(h, kind, a) == /\ ~HdrMode /\ hs[h].kind = "none" /\ Step("open", h)
                    /\ hs' = [hs EXCEPT ![h] = Handle(kind, a)]
                    /\ UNCHANGED <<ov, hdr, wrote, synced>>
Read(h, n) == /\ hs[h].kind \in {"r", "err"} /\ Step("read", h)
              /\ hs' = [hs EXCEPT ![h] = ReadRes(hs[h], ov, Seed, n).h]
              /\ UNCHANGED <<ov, hdr, wrote, synced>>
Payload(n) == [i \in 1..n |-> 100 + 10 * nops + i]
Write(h, n) == /\ hs[h].kind \in {"w", "err"} /\ Step("write", h)
               /\ LET r == WriteRes(hs[h], ov, Payload(n)) IN
                    /\ hs' = [hs EXCEPT ![h] = r.h]
                    /\ ov' = r.ov
                    /\ wrote' = [wrote EXCEPT ![h] = IF r.err = "nil" THEN @ \o Payload(n) ELSE @]
               /\ UNCHANGED <<hdr, synced>>

ReadHeader  == /\ HdrMode /\ Step("readhdr", 0) /\ hdr' = Parse(HdrBytes(ov)) /\ synced' = TRUE
               /\ UNCHANGED <<ov, hs, wrote>>
WriteHeader == /\ HdrMode /\ Step("writehdr", 0)
               /\ ov' = PutSeq(ov, HdrOff, WriteBack(HdrBytes(ov), hdr))
               /\ UNCHANGED <<hdr, hs, wrote, synced>>
Poke(o, v)  == /\ HdrMode /\ Step("poke", 0) /\ ov' = Put(ov, HdrOff + o, v) /\ synced' = FALSE
               /\ UNCHANGED <<hdr, hs, wrote>>
SetField(name, v) == /\ HdrMode /\ Step("setfield", 0) /\ ~FieldOf(name).arr
                     /\ hdr' = [hdr EXCEPT !.f[name] = v] /\ synced' = FALSE
                     /\ UNCHANGED <<ov, hs, wrote>>

Next == \/ \E h \in Handles, k \in {"r", "w"}, a \in BusAddrs : Open(h, k, a)
        \/ \E h \in Handles, n \in 1..MaxLen : Read(h, n) \/ Write(h, n)
        \/ ReadHeader \/ WriteHeader
        \/ \E o \in PokeOffs, v \in PokeVals : Poke(o, v)
        \/ \E name \in SetNames, v \in PokeVals : SetField(name, v)
Spec == Init /\ [][Next]_vars

\* ------------------------------------------------------------------ C10
InWindow(h, o) == o >= hs[h].start /\ o < hs[h].end
Changed(o) == Get(ov, Seed, o) # Get(last.before, Seed, o)
\* a write changes only bytes inside the acting handle's window, and windows stay inside bank and image
NoWriteOutsideWindow == last.act = "write" => \A o \in 0..(Size - 1) : Changed(o) => InWindow(last.h, o)
NothingElseWrites    == last.act \in {"open", "read", "readhdr", "setfield"} => \A o \in 0..(Size - 1) : ~Changed(o)
WindowInBank == \A h \in Handles : hs[h].kind \in {"r", "w"} =>
                  /\ hs[h].start \div HalfBank = (hs[h].end - 1) \div HalfBank \/ hs[h].start = hs[h].end
                  /\ hs[h].start + hs[h].pos <= hs[h].end
                  /\ hs[h].end <= Size
\* what a writer stored is what the image holds there (unless another handle overwrote it later)
Overlaps(h2, o) == h2 # last.h /\ hs[h2].kind = "w" /\ o >= hs[h2].start /\ o < hs[h2].start + hs[h2].pos
ReadBack == \A h \in Handles : hs[h].kind = "w" =>
              /\ Len(wrote[h]) = hs[h].pos
              /\ \A i \in 1..Len(wrote[h]) :
                   Get(ov, Seed, hs[h].start + i - 1) = wrote[h][i] \/ \E h2 \in Handles \ {h} : hs[h2].kind = "w"
ErrHandlesInert == \A h \in Handles : hs[h].kind = "err" => hs[h].pos = 0

\* ------------------------------------------------------------------ C09
RoundTripImage == (HdrMode /\ synced) => WriteBack(HdrBytes(ov), hdr) = HdrBytes(ov)
RoundTripParse == (HdrMode /\ synced) => Parse(Serialize(hdr)) = hdr
SerializeLen   == HdrMode => Len(Serialize(hdr)) = HdrLen
VersionRule    == (HdrMode /\ synced) =>
                    LET b == HdrBytes(ov) IN
                    /\ hdr.ver = 3 <=> b[43] = 51
                    /\ hdr.ver = 2 <=> (b[43] # 51 /\ b[37] = 0)
                    /\ hdr.ver = 1 => \A name \in ExtFields : hdr.f[name] = ZeroField(FieldOf(name))
\* changing one byte changes exactly the covering field (when the version is unchanged)
OneByteOneField == (HdrMode /\ last.act = "poke") =>
                    LET b0 == Slice(last.before, Seed, HdrOff, HdrLen)  b1 == HdrBytes(ov)
                        p0 == Parse(b0)  p1 == Parse(b1) IN
                    (p0.ver = p1.ver /\ b0 # b1) =>
                       LET o == CHOOSE o \in 0..(HdrLen - 1) : b0[o + 1] # b1[o + 1] IN
                       \A name \in FieldNames :
                          (p0.f[name] # p1.f[name]) <=> (Covers(FieldOf(name), o) /\ ~(p0.ver = 1 /\ name \in ExtFields))
LayoutOK == LayoutPartitions
=============================================================================
