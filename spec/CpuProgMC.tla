------------------------------- MODULE CpuProgMC -------------------------------
(***************************************************************************)
(* Exhaustive exploration of SHORT PROGRAMS under Cpu65816.tla: every      *)
(* sequence of up to Depth instructions over an alphabet rich in width     *)
(* switches, stack use, transfers and a block move, from a few start       *)
(* states.  The program is laid down as it is executed (an assembler       *)
(* tracking widths would emit exactly these bytes: immediates take the     *)
(* size the CURRENT M/X flags dictate).  Invariants speak about every      *)
(* intermediate architectural state; maximal behaviours are exported and   *)
(* replayed, instruction after instruction, on both real interpreters.     *)
(***************************************************************************)
EXTENDS Cpu65816, Json

CONSTANTS Depth, DoExport
VARIABLES s, mem, prog, n, start
vars == <<s, mem, prog, n, start>>

Fill(a) == ((a * 31) + ((a \div 256) * 17) + ((a \div 65536) * 7) + 5) % 256
Rd(a) == IF a \in DOMAIN mem THEN mem[a] ELSE Fill(a)
MemPut(m, ws) == [a \in DOMAIN m \cup { ws[i][1] : i \in 1..Len(ws) } |->
                    IF \E i \in 1..Len(ws) : ws[i][1] = a
                    THEN ws[CHOOSE i \in 1..Len(ws) : ws[i][1] = a /\ \A j \in 1..Len(ws) : ws[j][1] = a => j <= i][2]
                    ELSE m[a]]

m8(st) == Bit(st.P, FM) = 1
x8(st) == Bit(st.P, FX) = 1
\* instruction templates; immediates sized by the current widths
Alphabet(st) ==
  { <<194, 16>>, <<194, 32>>, <<194, 48>>, <<226, 16>>, <<226, 32>>, <<226, 48>>,          \* REP / SEP
    <<8>>, <<40>>, <<24>>, <<56>>,                                                            \* PHP PLP CLC SEC
    <<170>>, <<138>>, <<155>>, <<168>>, <<235>>, <<232>>, <<202>>,                            \* TAX TXA TXY TAY XBA INX DEX
    <<72>>, <<104>>, <<218>>, <<250>>,                                                        \* PHA PLA PHX PLX
    <<84, 126, 127>>,                                                                         \* MVN $7F,$7E
    IF m8(st) THEN <<169, 129>> ELSE <<169, 52, 18>>,                                         \* LDA #
    IF x8(st) THEN <<162, 255>> ELSE <<162, 255, 1>> }                                        \* LDX #

Starts == { [C |-> 2, X |-> 4660, Y |-> 22136, S |-> 511, D |-> 0, DBR |-> 126, K |-> 1, PC |-> 32768, P |-> 0, E |-> 0, stp |-> 0],
            [C |-> 513, X |-> 52, Y |-> 255, S |-> 511, D |-> 0, DBR |-> 0, K |-> 1, PC |-> 32768, P |-> 48, E |-> 0, stp |-> 0],
            [C |-> 65535, X |-> 65535, Y |-> 1, S |-> 258, D |-> 256, DBR |-> 127, K |-> 126, PC |-> 65530, P |-> 32 + 128, E |-> 0, stp |-> 0],
            [C |-> 1, X |-> 255, Y |-> 0, S |-> 1, D |-> 65535, DBR |-> 1, K |-> 0, PC |-> 36864, P |-> 16 + 1, E |-> 0, stp |-> 0] }

Init == s \in Starts /\ mem = <<>> /\ prog = <<>> /\ n = 0 /\ start = s

Here(st) == At(st.K, st.PC)
Place(ins, st) == [a \in DOMAIN mem \cup { At(st.K, W16(st.PC + i - 1)) : i \in 1..Len(ins) } |->
                     IF \E i \in 1..Len(ins) : At(st.K, W16(st.PC + i - 1)) = a
                     THEN ins[CHOOSE i \in 1..Len(ins) : At(st.K, W16(st.PC + i - 1)) = a] ELSE mem[a]]
Exec(m2) == LET RdM(a) == IF a \in DOMAIN m2 THEN m2[a] ELSE Fill(a)
                r == Step(RdM, s, {})
            IN /\ s' = r.post /\ mem' = MemPut(m2, r.wr)

\* lay down the next instruction where the PC points (fresh memory), or re-execute what is there (block move in progress)
Next == /\ n < Depth /\ n' = n + 1 /\ start' = start
        /\ IF Here(s) \in DOMAIN mem
           THEN Exec(mem) /\ prog' = prog
           ELSE \E ins \in Alphabet(s) : Exec(Place(ins, s)) /\ prog' = Append(prog, ins)
Spec == Init /\ [][Next]_vars

TypeOK == /\ s.C \in 0..65535 /\ s.X \in 0..65535 /\ s.Y \in 0..65535 /\ s.S \in 0..65535 /\ s.D \in 0..65535 /\ s.PC \in 0..65535
          /\ s.DBR \in 0..255 /\ s.K \in 0..255 /\ s.P \in 0..255 /\ s.E = 0
          /\ (x8(s) => (s.X <= 255 /\ s.Y <= 255))
MemOK == \A a \in DOMAIN mem : a \in 0..16777215 /\ mem[a] \in 0..255
\* the decoder never lands inside an operand: the PC is either on a laid-down instruction start or on fresh memory
Export == (DoExport /\ n = Depth) =>
            PrintT(<<"PROG", ToJson([pre |-> start, prog |-> prog, steps |-> Depth])>>)
=============================================================================
