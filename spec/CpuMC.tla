--------------------------------- MODULE CpuMC ---------------------------------
(***************************************************************************)
(* Exhaustive exploration of Cpu65816.tla's Step over every opcode, every  *)
(* M/X width combination and NCorners named corner valuations (operand     *)
(* bytes, index registers, data/program bank, direct page, stack pointer,  *)
(* program counter at bank ends, accumulator, carry/decimal).  One state   *)
(* per (opcode, m, x, corner); invariants speak about the post-state.      *)
(* With DoExport the pre-states are printed and replayed on BOTH real      *)
(* interpreters (vh cpu replay), whose outcome CpuTrace.tla then judges.   *)
(***************************************************************************)
EXTENDS Cpu65816, Json

CONSTANTS NCorners, DoExport, Emu
VARIABLES ph, op, m, x, cv
vars == <<ph, op, m, x, cv>>

Pick(list, i) == list[(i % Len(list)) + 1]
\* coprime list lengths make consecutive corner numbers walk through many combinations
O1s  == <<0, 255, 254, 128, 1>>
O2s  == <<0, 255, 127, 128, 16, 255, 1>>
O3s  == <<0, 255, 126>>
Xs   == <<0, 1, 255, 256, 65535, 32768, 2, 254>>
Ys   == <<1, 0, 65535, 255, 257, 3, 32767, 65534, 128, 256, 2>>
DBRs == <<0, 255, 126, 1>>
Ks   == <<0, 255, 128, 1, 126>>
Ds   == <<0, 1, 65280, 65535, 255, 256, 32768>>
Ss   == <<511, 0, 65535, 1, 256, 65534, 4095, 32768, 255>>
PCs  == <<32768, 65533, 65535, 65534, 0, 4660>>
Cs   == <<0, 65535, 32767, 32768, 255, 256, 1, 39321, 9, 128, 21845>>
Fls  == <<0, 1, 2, 64, 128, 195, 65, 130, 8, 9, 4>>       \* N V D I Z C patterns (M and X come from m, x)

Fill(seed, a) == ((a * 31) + ((a \div 256) * 17) + ((a \div 65536) * 7) + seed) % 256
Pre == LET p0 == Pick(Fls, cv)
           p  == (IF Emu THEN p0 | 48 ELSE (p0 - (p0 & 48)) + 32 * m + 16 * x)
           x8 == Emu \/ x = 1
       IN [C |-> Pick(Cs, cv), X |-> IF x8 THEN Pick(Xs, cv) % 256 ELSE Pick(Xs, cv),
           Y |-> IF x8 THEN Pick(Ys, cv) % 256 ELSE Pick(Ys, cv),
           S |-> IF Emu THEN 256 + (Pick(Ss, cv) % 256) ELSE Pick(Ss, cv), D |-> Pick(Ds, cv), DBR |-> Pick(DBRs, cv),
           K |-> Pick(Ks, cv), PC |-> Pick(PCs, cv), P |-> p, E |-> IF Emu THEN 1 ELSE 0, stp |-> 0]
Ins == <<op, Pick(O1s, cv), Pick(O2s, cv), Pick(O3s, cv)>>
Ov == [i \in 1..4 |-> <<At(Pre.K, W16(Pre.PC + i - 1)), Ins[i]>>]
Rd(a) == IF \E i \in 1..4 : Ov[i][1] = a THEN Ov[CHOOSE i \in 1..4 : Ov[i][1] = a][2] ELSE Fill(cv % 256, a)

\* two levels so that TLC's workers share the enumeration (initial states are generated sequentially)
Init == ph = 0 /\ op = 0 /\ m = 1 /\ x = 1 /\ cv = 0
Next == \/ ph = 0 /\ ph' = 1 /\ op' \in 0..255 /\ UNCHANGED <<m, x, cv>>
        \/ ph = 1 /\ ph' = 2 /\ m' \in {0, 1} /\ x' \in {0, 1} /\ cv' \in 0..(NCorners - 1) /\ (Emu => (m' = 1 /\ x' = 1))
           /\ UNCHANGED op
Spec == Init /\ [][Next]_vars

R == Step(Rd, Pre, {})
TypeOKr(Post) == /\ Post.C \in 0..65535 /\ Post.X \in 0..65535 /\ Post.Y \in 0..65535 /\ Post.S \in 0..65535 /\ Post.D \in 0..65535
          /\ Post.PC \in 0..65535 /\ Post.DBR \in 0..255 /\ Post.K \in 0..255 /\ Post.P \in 0..255 /\ Post.E \in {0, 1}
          /\ Post.stp \in {0, 1}
          /\ (Bit(Post.P, FX) = 1 => (Post.X <= 255 /\ Post.Y <= 255))           \* 8-bit index registers have no high byte
          \* emulation mode: 8-bit registers; stack page $01 per WDC, $10 after any push/pull as implemented ("emu_stack_page10"),
          \* and unchanged by instructions that do not touch the stack
          /\ (Post.E = 1 => (Bit(Post.P, FM) = 1 /\ Bit(Post.P, FX) = 1 /\ Post.S \div 256 \in {1, 16, Pre.S \div 256}))
AddrInRanger(r) == \A i \in 1..Len(r.wr) : r.wr[i][1] \in 0..16777215 /\ r.wr[i][2] \in 0..255
WritesBoundedr(r) == Len(r.wr) <= 4
OnlyListedFreer(r) == r.free \subseteq {"A", "N", "V", "Z", "C", "PC"}
BinaryIsDeterminater(r) == (Bit(Pre.P, FD) = 0 /\ Op(op).mn \notin {"stp", "wai", "jsr"}) => r.free = {}
\* instruction length law: unless control is transferred, PC advances by the architectural length inside the bank
Transfers == {"bpl", "bmi", "bvc", "bvs", "bcc", "bcs", "bne", "beq", "bra", "brl", "jmp", "jsr", "jsl", "rts", "rtl", "rti",
              "brk", "cop", "mvn", "mvp", "stp", "wai"}
PCAdvancer(Post) == Op(op).mn \notin Transfers => (Post.PC = W16(Pre.PC + InstrLen(op, Bit(Pre.P, FM), Bit(Pre.P, FX))) /\ Post.K = Pre.K)
\* one evaluation of Step per state; a failing conjunct is named in the output
Named(c, n) == c \/ (PrintT(<<"FAILED", n, op, m, x, cv>>) /\ FALSE)
AllOK == ph = 2 => LET r == R IN      \* (Emu = TRUE: the emulation-mode semantics as implemented)
           /\ Named(TypeOKr(r.post), "TypeOK") /\ Named(AddrInRanger(r), "AddrInRange") /\ Named(WritesBoundedr(r), "WritesBounded")
           /\ Named(OnlyListedFreer(r), "OnlyListedFree") /\ Named(BinaryIsDeterminater(r), "BinaryIsDeterminate")
           /\ Named(PCAdvancer(r.post), "PCAdvance")
Export == (DoExport /\ ph = 2) => PrintT(<<"EV", ToJson([seed |-> cv % 256, ov |-> Ov, pre |-> Pre])>>)
=============================================================================
