--------------------------------- MODULE Rom ---------------------------------
(***************************************************************************)
(* snes.ROM / snes.Header (rom.go, header.go): header parse / serialise /  *)
(* write-back (C09) and the bank-limited bus readers / writers (C10), as   *)
(* one state machine over a ROM object: image, parsed header struct, and   *)
(* any number of simultaneously open reader / writer handles.              *)
(*                                                                         *)
(* The image is a function on offsets represented sparsely: Fill(seed,off) *)
(* overridden by `ov`.  HalfBank is 32768 for the real code and small in   *)
(* the exhaustive configurations.                                          *)
(***************************************************************************)
EXTENDS Integers, Sequences, FiniteSets, TLC

CONSTANTS HalfBank,      \* bytes per LoROM bank in the image (real: 32768)
          Dev            \* named deviations

HdrLen   == 80
HdrOff   == HalfBank - HdrLen          \* $7FB0 in the real layout

Fill(seed, off) == ((off * 7) + ((off \div 256) * 13) + ((off \div 65536) * 5) + seed) % 256

\* ---- sparse functions
Get(ov, seed, off) == IF off \in DOMAIN ov THEN ov[off] ELSE Fill(seed, off)
Put(ov, off, v)    == [o \in DOMAIN ov \cup {off} |-> IF o = off THEN v ELSE ov[o]]
PutSeq(ov, off, s) == [o \in DOMAIN ov \cup {off + i - 1 : i \in 1..Len(s)} |->
                         IF o >= off /\ o < off + Len(s) THEN s[o - off + 1] ELSE ov[o]]
Slice(ov, seed, from, n) == [i \in 1..n |-> Get(ov, seed, from + i - 1)]

-----------------------------------------------------------------------------
(* Header layout: cartridge addresses $FFB0..$FFFF = offsets 0..79 *)

Layout == <<
  [n |-> "MakerCode",                off |-> 0,  sz |-> 2,  arr |-> FALSE],
  [n |-> "GameCode",                 off |-> 2,  sz |-> 4,  arr |-> FALSE],
  [n |-> "Fixed1",                   off |-> 6,  sz |-> 6,  arr |-> TRUE],
  [n |-> "FlashSize",                off |-> 12, sz |-> 1,  arr |-> FALSE],
  [n |-> "ExpansionRAMSize",         off |-> 13, sz |-> 1,  arr |-> FALSE],
  [n |-> "SpecialVersion",           off |-> 14, sz |-> 1,  arr |-> FALSE],
  [n |-> "CoCPUType",                off |-> 15, sz |-> 1,  arr |-> FALSE],
  [n |-> "Title",                    off |-> 16, sz |-> 21, arr |-> TRUE],
  [n |-> "MapMode",                  off |-> 37, sz |-> 1,  arr |-> FALSE],
  [n |-> "CartridgeType",            off |-> 38, sz |-> 1,  arr |-> FALSE],
  [n |-> "ROMSize",                  off |-> 39, sz |-> 1,  arr |-> FALSE],
  [n |-> "RAMSize",                  off |-> 40, sz |-> 1,  arr |-> FALSE],
  [n |-> "DestinationCode",          off |-> 41, sz |-> 1,  arr |-> FALSE],
  [n |-> "OldMakerCode",             off |-> 42, sz |-> 1,  arr |-> FALSE],
  [n |-> "MaskROMVersion",           off |-> 43, sz |-> 1,  arr |-> FALSE],
  [n |-> "ComplementCheckSum",       off |-> 44, sz |-> 2,  arr |-> FALSE],
  [n |-> "CheckSum",                 off |-> 46, sz |-> 2,  arr |-> FALSE],
  [n |-> "NativeVectors_Unused1",    off |-> 48, sz |-> 4,  arr |-> TRUE],
  [n |-> "NativeVectors_COP",        off |-> 52, sz |-> 2,  arr |-> FALSE],
  [n |-> "NativeVectors_BRK",        off |-> 54, sz |-> 2,  arr |-> FALSE],
  [n |-> "NativeVectors_ABORT",      off |-> 56, sz |-> 2,  arr |-> FALSE],
  [n |-> "NativeVectors_NMI",        off |-> 58, sz |-> 2,  arr |-> FALSE],
  [n |-> "NativeVectors_Unused2",    off |-> 60, sz |-> 2,  arr |-> FALSE],
  [n |-> "NativeVectors_IRQ",        off |-> 62, sz |-> 2,  arr |-> FALSE],
  [n |-> "EmulatedVectors_Unused1",  off |-> 64, sz |-> 4,  arr |-> TRUE],
  [n |-> "EmulatedVectors_COP",      off |-> 68, sz |-> 2,  arr |-> FALSE],
  [n |-> "EmulatedVectors_Unused2",  off |-> 70, sz |-> 2,  arr |-> FALSE],
  [n |-> "EmulatedVectors_ABORT",    off |-> 72, sz |-> 2,  arr |-> FALSE],
  [n |-> "EmulatedVectors_NMI",      off |-> 74, sz |-> 2,  arr |-> FALSE],
  [n |-> "EmulatedVectors_RESET",    off |-> 76, sz |-> 2,  arr |-> FALSE],
  [n |-> "EmulatedVectors_IRQBRK",   off |-> 78, sz |-> 2,  arr |-> FALSE] >>

FieldNames == { Layout[i].n : i \in 1..Len(Layout) }
FieldOf(name) == Layout[CHOOSE i \in 1..Len(Layout) : Layout[i].n = name]
Covers(f, o)  == o >= f.off /\ o < f.off + f.sz
ExtFields == { Layout[i].n : i \in 1..7 }            \* the $FFB0-$FFBF fields (version 2/3 only)

\* TLC integers are 32-bit: a 4-byte little-endian field is the pair <<low word, high word>>
LE(b, off, sz) == IF sz = 1 THEN b[off + 1]
                  ELSE IF sz = 2 THEN b[off + 1] + 256 * b[off + 2]
                  ELSE << b[off + 1] + 256 * b[off + 2], b[off + 3] + 256 * b[off + 4] >>
ByteOf(v, sz, i) == IF sz = 4 THEN (v[1 + (i \div 2)] \div (256 ^ (i % 2))) % 256     \* i-th little-endian byte
                    ELSE (v \div (256 ^ i)) % 256

RawField(b, f) == IF f.arr THEN SubSeq(b, f.off + 1, f.off + f.sz) ELSE LE(b, f.off, f.sz)
ZeroField(f)   == IF f.arr THEN [i \in 1..f.sz |-> 0] ELSE IF f.sz = 4 THEN <<0, 0>> ELSE 0

Version(b) == IF b[43] = 51 THEN 3            \* OldMakerCode ($FFDA) = $33
              ELSE IF b[37] = 0 THEN 2        \* Title[20] ($FFD4) = 0
              ELSE 1

\* Header.ReadHeader
Parse(b) == LET v == Version(b) IN
  [ver |-> v,
   f   |-> [name \in FieldNames |->
              IF v = 1 /\ name \in ExtFields THEN ZeroField(FieldOf(name)) ELSE RawField(b, FieldOf(name))]]

\* Header.WriteHeader: always 80 bytes
Serialize(h) ==
  [o \in 1..HdrLen |->
     LET f == Layout[CHOOSE i \in 1..Len(Layout) : Covers(Layout[i], o - 1)]
         v == h.f[f.n]
     IN IF f.arr THEN v[o - f.off] ELSE ByteOf(v, f.sz, o - 1 - f.off)]

\* ROM.WriteHeader: version <= 1 leaves $FFB0-$FFBF of the image untouched
WriteBack(old, h) == LET s == Serialize(h) IN
  [o \in 1..HdrLen |-> IF h.ver <= 1 /\ o <= 16 THEN old[o] ELSE s[o]]

\* ---- beyond the listed properties: Header.Score, ROMSizeBytes, RAMSizeBytes (header.go)
Vec(h, n) == h.f[n]
Score(h, addr) ==
  IF Vec(h, "EmulatedVectors_RESET") < 32768 THEN 0
  ELSE LET pts(c) == IF c THEN 1 ELSE 0
           mapper == h.f["MapMode"] - (IF (h.f["MapMode"] \div 16) % 2 = 1 THEN 16 ELSE 0)
           cs == h.f["CheckSum"]  ccs == h.f["ComplementCheckSum"]
       IN pts(Vec(h, "NativeVectors_NMI") >= 32768) + pts(Vec(h, "NativeVectors_BRK") >= 32768)
          + pts(Vec(h, "NativeVectors_IRQ") >= 32768) + pts(Vec(h, "NativeVectors_COP") >= 32768)
          + pts(Vec(h, "NativeVectors_ABORT") >= 32768) + pts(Vec(h, "EmulatedVectors_NMI") >= 32768)
          + pts(Vec(h, "EmulatedVectors_IRQBRK") >= 32768) + pts(Vec(h, "EmulatedVectors_COP") >= 32768)
          + pts(Vec(h, "EmulatedVectors_ABORT") >= 32768)
          + (IF cs + ccs = 65535 /\ cs # 0 /\ ccs # 0 THEN 8 ELSE 0)
          + (IF h.f["OldMakerCode"] = 51 THEN 2 ELSE 0)
          + pts(h.f["CartridgeType"] < 8) + pts(h.f["ROMSize"] < 16) + pts(h.f["RAMSize"] < 8) + pts(h.f["DestinationCode"] < 14)
          + (IF addr = 32688 /\ mapper = 32 THEN 2 ELSE 0) + (IF addr = 65456 /\ mapper = 33 THEN 2 ELSE 0)
          + (IF addr = 32688 /\ mapper = 34 THEN 2 ELSE 0) + (IF addr = 4259760 /\ mapper = 37 THEN 2 ELSE 0)
\* 1024 << size as a uint32, given as <<low word, high word>>
SizeBytes(sz) == IF sz >= 22 THEN <<0, 0>> ELSE IF sz >= 6 THEN <<0, 2 ^ (sz - 6)>> ELSE <<1024 * (2 ^ sz), 0>>

LayoutPartitions == \A o \in 0..(HdrLen - 1) :
                      Cardinality({ i \in 1..Len(Layout) : Covers(Layout[i], o) }) = 1

-----------------------------------------------------------------------------
(* Bus reader / writer windows *)

BusBank(a) == a \div (2 * HalfBank)
BusOff(a)  == a % (2 * HalfBank)
InRomHalf(a) == BusOff(a) >= HalfBank
WinStart(a) == BusBank(a) * HalfBank + (BusOff(a) - HalfBank)
\* The code (and the baseline test TestROM_BusReader_Fail_Boundary) use bank<<15|0x7FFF as an
\* EXCLUSIVE end: the last byte of every bank is outside the window.  The specification follows them.
WinEnd(a)   == BusBank(a) * HalfBank + (HalfBank - 1)

Handle(kind, a) == IF InRomHalf(a) THEN [kind |-> kind, start |-> WinStart(a), end |-> WinEnd(a), pos |-> 0]
                   ELSE [kind |-> "err", start |-> 0, end |-> 0, pos |-> 0]

\* io.Reader over the window: up to n bytes from the current position, EOF when nothing is left
ReadRes(h, ov, seed, n) ==
  IF h.kind = "err" THEN [data |-> <<>>, err |-> "ueof", h |-> h]
  ELSE LET avail == h.end - (h.start + h.pos)
           k == IF n < avail THEN n ELSE avail
       IN IF avail <= 0 THEN [data |-> <<>>, err |-> "eof", h |-> h]
          ELSE [data |-> Slice(ov, seed, h.start + h.pos, k), err |-> "nil", h |-> [h EXCEPT !.pos = @ + k]]

\* io.Writer over the window: all of p or an error; with an error, nothing is stored
\* deviation "silent_partial": the repository's original writer (stores what fits, reports no error)
WriteRes(h, ov, p) ==
  IF h.kind = "err" THEN [n |-> 0, err |-> "ueof", h |-> h, ov |-> ov]
  ELSE LET avail == h.end - (h.start + h.pos)
       IN IF Len(p) <= avail
          THEN [n |-> Len(p), err |-> "nil", h |-> [h EXCEPT !.pos = @ + Len(p)], ov |-> PutSeq(ov, h.start + h.pos, p)]
          ELSE IF "silent_partial" \in Dev /\ avail > 0
               THEN [n |-> avail, err |-> "nil", h |-> [h EXCEPT !.pos = @ + avail],
                     ov |-> PutSeq(ov, h.start + h.pos, SubSeq(p, 1, avail))]
               ELSE [n |-> 0, err |-> "ueof", h |-> h, ov |-> ov]
=============================================================================
