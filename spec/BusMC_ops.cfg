SPECIFICATION Spec
CONSTANTS
  Dev = {}
  NBlocks = 4
  Mems = {1, 2}
  MaxAttach = 0
  OpsMode = TRUE
INVARIANT DumpIsPointwise
INVARIANT ReadGetsFullAddress
INVARIANT WriteLandsInRoutedMemory
CHECK_DEADLOCK FALSE
