------------------------------ MODULE ColorTrace ------------------------------
(* Validates calls recorded from the REAL color15 package (vh color) against Color.tla.      *)
(* color.ndjson lines: {k:"muldiv",c,m,d,r} {k:"rgb",c,r,g,b} {k:"pack",r,g,b,c} {k:"lum",c,l} *)
(* Accumulating style: l walks the trace, bad collects the lines the spec disagrees with.     *)
EXTENDS Color, Json, FiniteSets
Trace == ndJsonDeserialize("color.ndjson")
VARIABLES l, bad
vars == <<l, bad>>

Expected(e) ==
  CASE e.k = "muldiv" -> e.r = MulDiv(e.c, e.m, e.d)
    [] e.k = "rgb"    -> LET u == Unpack(e.c) IN e.r = u.r /\ e.g = u.g /\ e.b = u.b
    [] e.k = "pack"   -> e.c = Pack(e.r, e.g, e.b)
    [] e.k = "lum"    -> e.l = Luminosity(e.c)

Init == l = 1 /\ bad = {}
Next == /\ l <= Len(Trace)
        /\ bad' = IF Expected(Trace[l]) THEN bad ELSE bad \cup {l}
        /\ l' = l + 1
Spec == Init /\ [][Next]_vars

Report == l = Len(Trace) + 1 =>
            \A i \in bad : PrintT(<<"BAD", ToJson([prop |-> "C17", line |-> i, ev |-> Trace[i],
                                   spec |-> IF Trace[i].k = "muldiv" THEN MulDiv(Trace[i].c, Trace[i].m, Trace[i].d) ELSE -1])>>)
Consumed == TLCGet("stats").diameter - 1 = Len(Trace)      \* POSTCONDITION: every line was consumed
=============================================================================
