---------------------------- MODULE MemMapTrace ----------------------------
(* Judges page tables RECORDED FROM THE REAL CODE (vh mappages) against MemMap.tla.          *)
(* pages.ndjson: 10 tables x 2048 lines {t, page, m, b, u}; tables 0..3 = BusAddressToPak of  *)
(* lorom, hirom, exhirom, sa1rom; 4..7 = PakAddressToBus; 8 / 9 = emulator.System read/write. *)
(* One TLC state per (table, page).  Style: accumulating -- a failed check prints a BAD line  *)
(* (collected by the driver) instead of stopping TLC, so every offending page is reported.   *)
EXTENDS MemMap, Json

Trace == ndJsonDeserialize("pages.ndjson")
NTables == Len(Trace) \div NPages        \* 10, or 8 when the emulator.System tables were not recorded
ASSUME Len(Trace) \in {8 * NPages, 10 * NPages}
ASSUME \A i \in 1..Len(Trace) : Trace[i].t = (i - 1) \div NPages /\ Trace[i].page = (i - 1) % NPages

VARIABLES t, pg
vars == <<t, pg>>
Init == t \in 0..(NTables - 1) /\ pg \in 0..(NPages - 1)
Next == UNCHANGED vars
Spec == Init /\ [][Next]_vars

Line(tt, p) == Trace[tt * NPages + p + 1]
\* the recorded real functions, extended from page tables by the (exhaustively checked) lemma
Impl(tt, a) == LET e == Line(tt, a \div PageSize) IN
               IF e.m = 0 THEN Unmapped ELSE e.b + (a % PageSize)
mi0   == t % 4                    \* mapper of the current table (t in 0..7)
FB(a) == Impl(mi0, a)             \* real BusAddressToPak of that mapper
FP(p) == Impl(mi0 + 4, p)         \* real PakAddressToBus of that mapper
LoB(a) == Impl(0, a)              \* real LoROM BusAddressToPak

Bad(prop, what, wit) == PrintT(<<"BAD", ToJson([prop |-> prop, what |-> what, t |-> t, page |-> pg, wit |-> wit])>>)
Holds(ok, prop, what, wit) == ok \/ Bad(prop, what, wit)

e0 == Line(t, pg)
a0 == pg * PageSize

\* ---- C05: forward tables equal the documented region table; every page uniform
C05Uniform == Holds(e0.u = 1, "C05", "page not uniform: not 'unmapped everywhere or base+offset'", e0)
C05Table   == t \in 0..3 =>
                Holds(Impl(t, a0) = B2P(Mappers[t + 1], a0), "C05",
                      "BusAddressToPak differs from the documented region table",
                      [impl |-> Impl(t, a0), spec |-> B2P(Mappers[t + 1], a0), addr |-> a0])
C05WellFormed == t \in 0..3 =>
                Holds(WellFormedAt(Mappers[t + 1], FB, a0), "C05",
                      "result outside the class windows / console-owned regions disagree",
                      [impl |-> Impl(t, a0), addr |-> a0])
C05Accepts == t \in 4..7 =>
                Holds(AcceptsExactly(FP, a0), "C05",
                      "PakAddressToBus must reject exactly $F00000-$F4FFFF",
                      [impl |-> Impl(t, a0), addr |-> a0])
C05Aligned == (t \in 0..7 /\ e0.m = 1) =>
                Holds(e0.b % PageSize = 0 /\ e0.b >= 0 /\ e0.b < Top, "C05", "page base not 8 KiB aligned or out of range", e0)

\* ---- C04 on the real tables
C04RightInverse == t \in 0..3 =>
                Holds(RightInverseAt(FB, FP, a0), "C04",
                      "PakAddressToBus is not a right inverse of BusAddressToPak",
                      [bus |-> a0, pak |-> Impl(t, a0),
                       back |-> IF Impl(t, a0) = Unmapped THEN Unmapped ELSE Impl(t + 4, Impl(t, a0))])
C04Collapse == t \in 4..7 =>
                Holds(CollapseAt(FB, FP, a0), "C04",
                      "accepted pak address does not collapse onto a mapped cell of the same class/offset",
                      [pak |-> a0, bus |-> Impl(t, a0),
                       again |-> IF Impl(t, a0) = Unmapped THEN Unmapped ELSE Impl(t - 4, Impl(t, a0))])

\* ---- C11 on the real system tables (reads = table 8, writes = table 9) against the REAL LoROM table (table 0)
SysAt(tt, a) == LET e == Line(tt, a \div PageSize) IN
                 [cls |-> SysClasses[e.m + 1], cell |-> IF e.m \in 1..3 THEN e.b + (a % PageSize) ELSE 0]
SysT(a) == SysAt(t, a)
C11Agree == t \in 8..9 =>
                Holds(e0.u = 0 \/ AgreeAt(SysT, LoB, a0), "C11",
                      "emulator backs this page with a different cell than the LoROM mapper designates",
                      [addr |-> a0, sys |-> SysT(a0), lorom |-> Impl(0, a0)])
C11ReadWriteSame == t = 8 =>
                Holds(LET r == Line(8, pg)  w == Line(9, pg) IN
                      (r.m \in 1..3 \/ w.m \in 1..3) => (r.m = w.m /\ r.b = w.b), "C11",
                      "reads and writes of this page go to different storage", [rd |-> Line(8, pg), wr |-> Line(9, pg)])
\* "all mirrors the mapper declares equivalent (banks $80-$BF versus $00-$3F, the WRAM window in the low 8 KiB of system
\* banks, SRAM banks $F0+ versus $70+) read and write the same storage in the emulator": for the three NAMED families,
\* when the REAL LoROM table (table 0) translates both addresses to the same pak address, the emulator backs both with
\* the same cell as soon as it backs one of them with memory.
MirrorPartners(a) ==
  LET bank == a \div 65536  offs == a % 65536 IN
  (IF bank \in 0..63 \/ bank \in 112..125 THEN {a + 8388608} ELSE {})
  \cup (IF (bank \in 0..63 \/ bank \in 128..191) /\ offs < 8192 THEN {8257536 + offs} ELSE {})       \* $7E:0000 + offs
IsMem(s) == s.cls \in {"ROM", "SRAM", "WRAM"}
C11Mirrors == t \in 8..9 =>
                \A b \in MirrorPartners(a0) :
                  Holds(e0.u = 0 \/ Line(t, b \div PageSize).u = 0 \/ LoB(a0) = Unmapped \/ LoB(b) # LoB(a0) \/
                        ((IsMem(SysT(a0)) \/ IsMem(SysT(b))) => SysT(a0) = SysT(b)),
                        "C11", "a mirror the LoROM mapper declares equivalent is not backed by the same storage in the emulator",
                        [addr |-> a0, mirror |-> b, sys |-> SysT(a0), sysMirror |-> SysT(b)])
\* drift note (not a property): system page table vs the specification's SysMap
SysDrift == t = 8 => LET r == SysAt(8, a0)  s == SysMap(a0) IN
              (r.cls = s.cls /\ (r.cls \in {"ROM", "SRAM", "WRAM"} => r.cell = s.cell))
              \/ PrintT(<<"NOTE", "sysmap-drift", pg>>)
=============================================================================
