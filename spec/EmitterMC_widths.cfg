SPECIFICATION Spec
CONSTANTS
  Dev = {}
  Alphabet = "widths"
  Depth = 4
  Caps = {64}
  Gen = TRUE
  WithClone = FALSE
  WithDry = FALSE
  DoExport = FALSE
CONSTRAINT Export
INVARIANT NeverOverCapacity
INVARIANT RefusalIsAtomic
INVARIANT EmittedLengthIsArchitectural
INVARIANT DuplicateLabelRefused
INVARIANT DecodesAtSameBoundaries
INVARIANT ImmediateRefusedIffWidthMismatch
CHECK_DEADLOCK FALSE
