---------------------------- MODULE RunLoopTrace ----------------------------
(***************************************************************************)
(* Validates real emulator.System.RunUntil runs against RunLoop.tla.       *)
(* Observation without hooks: an OnPC callback registered on EVERY address *)
(* of bank 0 reports each instruction fetch together with the running      *)
(* cycle total; a counting Logger reports the traced addresses; OnWDM      *)
(* reports WDM operands.  Events of one run:                               *)
(*   begin{target,budget,pc,all,logging,prog}  log{pc}  cb{pc,all}         *)
(*   wdm{v}  ret{result,pc,all}     (abort{} if the run had to be stopped) *)
(* Strict style: the run is walked through RunLoop's phases; the first     *)
(* event that RunLoop does not allow kills the run (dead) and is reported. *)
(***************************************************************************)
EXTENDS Integers, Sequences, FiniteSets, TLC, Json

Trace == ndJsonDeserialize("run.ndjson")
VARIABLES l, bad, dead, phase, pc, target, budget, all0, consumed, logging, prog, lastop, why
vars == <<l, bad, dead, phase, pc, target, budget, all0, consumed, logging, prog, lastop, why>>

ProgAt(a) == IF \E i \in 1..Len(prog) : prog[i][1] = a
             THEN prog[CHOOSE i \in 1..Len(prog) : prog[i][1] = a][2] ELSE -1

\* what the event must satisfy in the current phase, and the phase that follows
\* phases: "top" (loop head), "cmp" (after the log line), "exec" (callback seen, instruction running)
Allowed(e) ==
  CASE e.k = "log" -> /\ phase = "top" /\ logging /\ consumed < budget /\ e.pc = pc
    [] e.k = "cb"  -> /\ IF logging THEN phase = "cmp" ELSE (phase = "top" /\ consumed < budget)
                      /\ e.pc = pc /\ pc # target
                      /\ e.all - all0 = consumed
    [] e.k = "wdm" -> /\ phase = "exec" /\ lastop = 66 /\ e.v = ProgAt(pc + 1)        \* $42 = WDM, operand follows
    [] e.k = "ret" -> /\ phase \in {"top", "cmp"}
                      /\ (phase = "cmp" => pc = target)
                      /\ (phase = "top" => (consumed >= budget \/ (~logging /\ pc = target)))
                      /\ e.pc = pc /\ e.all - all0 = consumed
                      /\ e.result = (pc = target)
    [] OTHER -> FALSE

\* a step just finished when we see the next log/cb/ret: its cycle count must be >= 1
StepDone(e) == phase = "exec" /\ e.k \in {"log", "cb", "ret"}

Init == /\ l = 1 /\ bad = {} /\ dead = TRUE /\ phase = "none" /\ pc = 0 /\ target = 0 /\ budget = 0 /\ all0 = 0
        /\ consumed = 0 /\ logging = FALSE /\ prog = <<>> /\ lastop = -1 /\ why = <<>>

Next ==
  /\ l <= Len(Trace)
  /\ l' = l + 1
  /\ LET e == Trace[l] IN
     IF e.k = "begin"
     THEN /\ dead' = FALSE /\ phase' = "top" /\ pc' = e.pc /\ target' = e.target /\ budget' = e.budget /\ all0' = e.all
          /\ consumed' = 0 /\ logging' = e.logging /\ prog' = e.prog /\ lastop' = -1
          /\ UNCHANGED <<bad, why>>
     ELSE IF e.k = "pair"        \* C14: the traced and the untraced run of the same scenario end identically
     THEN /\ bad' = IF e.with = e.without THEN bad ELSE bad \cup {l}
          /\ why' = IF e.with = e.without THEN why ELSE [i \in DOMAIN why \cup {l} |-> IF i = l THEN "tracing perturbs execution" ELSE why[i]]
          /\ UNCHANGED <<dead, phase, pc, target, budget, all0, consumed, logging, prog, lastop>>
     ELSE IF e.k = "textpair"    \* C14: the trace text is the same through any kind of Logger (plain buffer vs small bufio.Writer)
     THEN /\ bad' = IF e.same THEN bad ELSE bad \cup {l}
          /\ why' = IF e.same THEN why ELSE [i \in DOMAIN why \cup {l} |-> IF i = l THEN "trace text depends on the kind of Logger" ELSE why[i]]
          /\ UNCHANGED <<dead, phase, pc, target, budget, all0, consumed, logging, prog, lastop>>
     ELSE IF dead THEN UNCHANGED <<bad, dead, phase, pc, target, budget, all0, consumed, logging, prog, lastop, why>>
     ELSE IF e.k = "lost" THEN /\ dead' = TRUE
                               /\ UNCHANGED <<bad, phase, pc, target, budget, all0, consumed, logging, prog, lastop, why>>
     ELSE
       \* close the running step first: the next observation carries the new pc and cycle total
       LET closing == StepDone(e)
           newc == IF closing THEN e.all - all0 ELSE consumed
           cycok == ~closing \/ newc >= consumed + 1
           \* view of the loop head after the step
           ph == IF closing THEN "top" ELSE phase
           p == IF closing THEN e.pc ELSE pc
           ok == cycok /\ (LET phase0 == ph IN
                   CASE e.k = "log" -> ph = "top" /\ logging /\ newc < budget
                     [] e.k = "cb"  -> (IF logging THEN ph = "cmp" ELSE (ph = "top" /\ newc < budget)) /\ e.pc = p /\ p # target /\ e.all - all0 = newc
                     [] e.k = "wdm" -> ph = "exec" /\ lastop = 66 /\ e.v = ProgAt(pc + 1)
                     [] e.k = "ret" -> /\ ph \in {"top", "cmp"}
                                       /\ (ph = "cmp" => p = target)
                                       /\ (ph = "top" => (newc >= budget \/ (~logging /\ p = target)))
                                       /\ e.pc = p /\ e.result = (p = target)
                     [] OTHER -> FALSE)
       IN /\ bad' = IF ok THEN bad ELSE bad \cup {l}
          /\ why' = IF ok THEN why ELSE [i \in DOMAIN why \cup {l} |-> IF i = l THEN
                        (IF ~cycok THEN "step consumed < 1 cycle" ELSE "event not allowed by RunLoop in phase " \o ph) ELSE why[i]]
          /\ dead' = ~ok
          /\ consumed' = newc
          /\ pc' = IF e.k \in {"log", "cb", "ret"} THEN e.pc ELSE pc
          /\ phase' = CASE e.k = "log" -> "cmp" [] e.k = "cb" -> "exec" [] e.k = "ret" -> "returned" [] OTHER -> phase
          /\ lastop' = IF e.k = "cb" THEN ProgAt(e.pc) ELSE lastop
          /\ UNCHANGED <<target, budget, all0, logging, prog>>
Spec == Init /\ [][Next]_vars
Report == l = Len(Trace) + 1 => \A i \in bad : PrintT(<<"BAD", ToJson([line |-> i, why |-> why[i], ev |-> Trace[i]])>>)
Consumed == TLCGet("stats").diameter - 1 = Len(Trace)
=============================================================================
