SPECIFICATION Spec
CONSTANTS
  Dev = {}
  NBlocks = 3
  Mems = {1, 2}
  MaxAttach = 3
  OpsMode = FALSE
INVARIANT RoutingIsLastAttach
INVARIANT RejectedAttachChangesNothing
INVARIANT AttachOnlyInsideRange
CHECK_DEADLOCK FALSE
