------------------------------- MODULE Emitter -------------------------------
(***************************************************************************)
(* asm.Emitter: a 65816 "immediate assembler" that appends machine code to *)
(* a caller-provided buffer, tracks the M/X flag widths, resolves labels   *)
(* in Finalize, keeps an optional listing, and supports Clone/Append.      *)
(* Properties C03, C06, C07, C15, C16, C19.                                *)
(*                                                                         *)
(* An emitter is a RECORD; every public call is a pure operator            *)
(*    Call(e, c)  ->  [e |-> new emitter, refused |-> BOOLEAN, ret]        *)
(* so that model-checking modules can hold several emitters (direct /      *)
(* original / clone / dry-run twin) in one state.                          *)
(*                                                                         *)
(* Method table: written from the METHOD NAMES (mnemonic _ addressing mode *)
(* _ operand size) and resolved to opcodes through ISA.tla, not copied     *)
(* from the Go source.                                                     *)
(***************************************************************************)
EXTENDS Integers, Sequences, FiniteSets, TLC, ISA

CONSTANT Dev

Mt(mn, mode, kind, guard) == [mn |-> mn, mode |-> mode, kind |-> kind, guard |-> guard]

\* operand kinds: none, u8, u16, u24 (argument = <<low word, high word>> of a uint32), lh (lo,hi),
\* lhb (lo,hi,bank), bm (dst,src), flags (REP/SEP mask), l8 / l16 (label reference, placeholder $FF..)
Methods ==
     "NOP" :> Mt("nop", "imp", "none", "")  @@ "RTS" :> Mt("rts", "imp", "none", "")
  @@ "RTL" :> Mt("rtl", "imp", "none", "")  @@ "RTI" :> Mt("rti", "imp", "none", "")
  @@ "DEX" :> Mt("dex", "imp", "none", "")  @@ "DEY" :> Mt("dey", "imp", "none", "")
  @@ "PHB" :> Mt("phb", "imp", "none", "")  @@ "PHA" :> Mt("pha", "imp", "none", "")
  @@ "PHX" :> Mt("phx", "imp", "none", "")  @@ "PHY" :> Mt("phy", "imp", "none", "")
  @@ "PHP" :> Mt("php", "imp", "none", "")  @@ "PHD" :> Mt("phd", "imp", "none", "")
  @@ "PHK" :> Mt("phk", "imp", "none", "")  @@ "TCD" :> Mt("tcd", "imp", "none", "")
  @@ "PLD" :> Mt("pld", "imp", "none", "")  @@ "PLP" :> Mt("plp", "imp", "none", "")
  @@ "PLY" :> Mt("ply", "imp", "none", "")  @@ "PLX" :> Mt("plx", "imp", "none", "")
  @@ "PLA" :> Mt("pla", "imp", "none", "")  @@ "PLB" :> Mt("plb", "imp", "none", "")
  @@ "XBA" :> Mt("xba", "imp", "none", "")  @@ "SEI" :> Mt("sei", "imp", "none", "")
  @@ "CLI" :> Mt("cli", "imp", "none", "")  @@ "CLC" :> Mt("clc", "imp", "none", "")
  @@ "STP" :> Mt("stp", "imp", "none", "")  @@ "TXA" :> Mt("txa", "imp", "none", "")
  @@ "TAX" :> Mt("tax", "imp", "none", "")  @@ "ASL" :> Mt("asl", "acc", "none", "")
  @@ "REP" :> Mt("rep", "imm8", "flags", "") @@ "SEP" :> Mt("sep", "imm8", "flags", "")
  @@ "WDM" :> Mt("wdm", "imm8", "u8", "")
  @@ "STA_dp" :> Mt("sta", "dp", "u8", "")   @@ "STY_dp" :> Mt("sty", "dp", "u8", "")
  @@ "STY_dp_x" :> Mt("sty", "dpx", "u8", "") @@ "STZ_dp" :> Mt("stz", "dp", "u8", "")
  @@ "INC_dp" :> Mt("inc", "dp", "u8", "")   @@ "DEC_dp" :> Mt("dec", "dp", "u8", "")
  @@ "LDA_dp" :> Mt("lda", "dp", "u8", "")
  @@ "BNE_imm8" :> Mt("bne", "rel", "u8", "") @@ "BEQ_imm8" :> Mt("beq", "rel", "u8", "")
  @@ "BPL_imm8" :> Mt("bpl", "rel", "u8", "") @@ "BRA_imm8" :> Mt("bra", "rel", "u8", "")
  @@ "LDA_imm8_b" :> Mt("lda", "immM", "u8", "M8") @@ "ORA_imm8_b" :> Mt("ora", "immM", "u8", "M8")
  @@ "CMP_imm8_b" :> Mt("cmp", "immM", "u8", "M8") @@ "ADC_imm8_b" :> Mt("adc", "immM", "u8", "M8")
  @@ "AND_imm8_b" :> Mt("and", "immM", "u8", "M8") @@ "SBC_imm8_b" :> Mt("sbc", "immM", "u8", "M8")
  @@ "CPY_imm8_b" :> Mt("cpy", "immX", "u8", "X8") @@ "LDX_imm8_b" :> Mt("ldx", "immX", "u8", "X8")
  @@ "LDY_imm8_b" :> Mt("ldy", "immX", "u8", "X8")
  @@ "LDA_imm16_w" :> Mt("lda", "immM", "u16", "M16") @@ "LDA_imm16_lh" :> Mt("lda", "immM", "lh", "M16")
  @@ "ORA_imm16_w" :> Mt("ora", "immM", "u16", "M16") @@ "CMP_imm16_w" :> Mt("cmp", "immM", "u16", "M16")
  @@ "AND_imm16_w" :> Mt("and", "immM", "u16", "M16")
  @@ "LDX_imm16_w" :> Mt("ldx", "immX", "u16", "X16") @@ "LDY_imm16_w" :> Mt("ldy", "immX", "u16", "X16")
  @@ "JSR_abs" :> Mt("jsr", "abs", "u16", "")   @@ "LDA_abs" :> Mt("lda", "abs", "u16", "")
  @@ "LDA_abs_x" :> Mt("lda", "abx", "u16", "") @@ "STA_abs" :> Mt("sta", "abs", "u16", "")
  @@ "STA_abs_x" :> Mt("sta", "abx", "u16", "") @@ "STY_abs" :> Mt("sty", "abs", "u16", "")
  @@ "LDY_abs" :> Mt("ldy", "abs", "u16", "")   @@ "STZ_abs" :> Mt("stz", "abs", "u16", "")
  @@ "STZ_abs_x" :> Mt("stz", "abx", "u16", "") @@ "INC_abs" :> Mt("inc", "abs", "u16", "")
  @@ "DEC_abs" :> Mt("dec", "abs", "u16", "")   @@ "LDX_abs" :> Mt("ldx", "abs", "u16", "")
  @@ "STX_abs" :> Mt("stx", "abs", "u16", "")   @@ "JMP_abs_imm16_w" :> Mt("jmp", "abs", "u16", "")
  @@ "JMP_indirect" :> Mt("jmp", "ind", "u16", "")
  @@ "JSL" :> Mt("jsl", "abl", "u24", "")       @@ "JML" :> Mt("jmp", "abl", "u24", "")
  @@ "LDA_long" :> Mt("lda", "abl", "u24", "")  @@ "LDA_long_x" :> Mt("lda", "alx", "u24", "")
  @@ "STA_long" :> Mt("sta", "abl", "u24", "")  @@ "ORA_long" :> Mt("ora", "abl", "u24", "")
  @@ "CMP_long" :> Mt("cmp", "abl", "u24", "")  @@ "JSL_lhb" :> Mt("jsl", "abl", "lhb", "")
  @@ "MVN" :> Mt("mvn", "bm", "bm", "")
  @@ "BNE" :> Mt("bne", "rel", "l8", "") @@ "BEQ" :> Mt("beq", "rel", "l8", "")
  @@ "BPL" :> Mt("bpl", "rel", "l8", "") @@ "BMI" :> Mt("bmi", "rel", "l8", "")
  @@ "BCC" :> Mt("bcc", "rel", "l8", "") @@ "BCS" :> Mt("bcs", "rel", "l8", "")
  @@ "BRA" :> Mt("bra", "rel", "l8", "") @@ "JMP_abs" :> Mt("jmp", "abs", "l16", "")

MethodNames == DOMAIN Methods
OpcodeOfMethod(m) == OpcodeOf(Methods[m].mn, Methods[m].mode)

\* ---- flags
FlagM == 32
FlagX == 16
BitSet(p, b) == (p \div b) % 2 = 1
FAnd(p, q) == LET bit(i) == IF BitSet(p, 2 ^ i) /\ BitSet(q, 2 ^ i) THEN 2 ^ i ELSE 0 IN
              bit(0) + bit(1) + bit(2) + bit(3) + bit(4) + bit(5) + bit(6) + bit(7)
FOr(p, q)  == p + q - FAnd(p, q)
FClear(p, c) == p - FAnd(p, c)             \* AssumeREP
FSet(p, c)   == FOr(p, c)                  \* AssumeSEP
M8(e)  == BitSet(e.flags, FlagM)
X8(e)  == BitSet(e.flags, FlagX)
GuardOK(e, g) == CASE g = "" -> TRUE [] g = "M8" -> M8(e) [] g = "M16" -> ~M8(e)
                   [] g = "X8" -> X8(e) [] g = "X16" -> ~X8(e)

\* ---- encoding (C03)
Lo(v) == v % 256
Hi(v) == (v \div 256) % 256
OperandBytes(kind, a) ==
  CASE kind = "none"  -> <<>>
    [] kind = "u8"    -> <<a[1] % 256>>
    [] kind = "flags" -> <<a[1] % 256>>
    [] kind = "u16"   -> <<Lo(a[1]), Hi(a[1])>>
    [] kind = "u24"   -> <<Lo(a[1]), Hi(a[1]), Lo(a[2])>>          \* only the low 24 bits of the uint32
    [] kind = "lh"    -> <<a[1], a[2]>>
    [] kind = "lhb"   -> <<a[1], a[2], a[3]>>
    [] kind = "bm"    -> <<a[1], a[2]>>                             \* destination bank, then source bank
    [] kind = "l8"    -> <<255>>
    [] kind = "l16"   -> <<255, 255>>
Encode(m, a) == <<OpcodeOfMethod(m)>> \o OperandBytes(Methods[m].kind, a)
\* architectural length under the tracked widths must equal the emitted length
ArchLen(m, e) == InstrLen(OpcodeOfMethod(m), IF M8(e) THEN 1 ELSE 0, IF X8(e) THEN 1 ELSE 0)

\* ---- emitter records
\* cap = -1: no target buffer (dry run): nothing is stored, n stays 0, everything else is tracked
New(cap, gen) == [cap |-> cap, code |-> <<>>, addr |-> 0, base |-> 0, baseSet |-> FALSE, flags |-> 0, gen |-> gen,
                  labels |-> <<>>, d8 |-> <<>>, d16 |-> <<>>, lines |-> <<>>,
                  starts |-> <<>>,        \* history: address of every accepted instruction (for C07)
                  fit |-> TRUE]           \* history: no call has been refused for lack of capacity so far
N(e) == Len(e.code)
Fits(e, k) == e.cap < 0 \/ N(e) + k <= e.cap
Store(e, bytes) == IF e.cap < 0 THEN e.code ELSE e.code \o bytes

FnPut(f, k, v) == [x \in DOMAIN f \cup {k} |-> IF x = k THEN v ELSE f[x]]
FnGet(f, k, dflt) == IF k \in DOMAIN f THEN f[k] ELSE dflt

\* listing records: t in {"base","comment","label","db","ins"}
Ln(t, addr, cnt, txt) == [t |-> t, addr |-> addr, cnt |-> cnt, txt |-> txt]
\* emitBase(): a pending base directive is listed once, just before the next listed item
WithBase(e) == IF e.gen /\ e.baseSet
               THEN [e EXCEPT !.lines = Append(@, Ln("base", e.addr, 0, "")), !.baseSet = FALSE]
               ELSE e
AddLine(e, ln) == IF e.gen THEN [WithBase(e) EXCEPT !.lines = Append(@, ln)] ELSE e

Res(e, refused, ret) == [e |-> e, refused |-> refused, ret |-> ret]

\* instruction-emitting methods
Instr(e, m, a) ==
  LET mt == Methods[m]
      bytes == Encode(m, a)
      k == Len(bytes)
      fl == IF m = "REP" THEN FClear(e.flags, a[1] % 256) ELSE IF m = "SEP" THEN FSet(e.flags, a[1] % 256) ELSE e.flags
      ef == [e EXCEPT !.flags = fl]        \* REP/SEP update the tracker BEFORE the bytes are written
  IN IF ~GuardOK(e, mt.guard) THEN Res(e, TRUE, 0)
     ELSE IF ~Fits(e, k) THEN Res([ef EXCEPT !.fit = FALSE], TRUE, 0)
     ELSE LET e1 == [ef EXCEPT !.code = Store(e, bytes)]
              lbl == IF mt.kind \in {"l8", "l16"} THEN a[1] ELSE ""
              e2 == AddLine(e1, Ln("ins", e.addr, k, lbl))
              e3 == [e2 EXCEPT !.addr = e.addr + k, !.starts = Append(@, e.addr)]
              e4 == CASE mt.kind = "l8"  -> [e3 EXCEPT !.d8  = FnPut(@, a[1], Append(FnGet(@, a[1], <<>>), e.addr + 1))]
                      [] mt.kind = "l16" -> [e3 EXCEPT !.d16 = FnPut(@, a[1], Append(FnGet(@, a[1], <<>>), e.addr + 1))]
                      [] OTHER -> e3
          IN Res(e4, FALSE, 0)

Chunks(addr, n) ==      \* one data line per 16 bytes; deviation db_bytecount = whole block length on every line
  LET nl == (n + 15) \div 16 IN
  [i \in 1..nl |-> Ln("db", addr + 16 * (i - 1),
                      IF "db_bytecount" \in Dev THEN n ELSE IF i < nl THEN 16 ELSE n - 16 * (nl - 1), "")]
EmitBytes(e, bytes) ==
  LET k == Len(bytes)
      el == IF e.gen THEN [WithBase(e) EXCEPT !.lines = @ \o Chunks(e.addr, k)] ELSE e   \* listed BEFORE the write
  IN IF ~Fits(e, k) THEN Res([el EXCEPT !.fit = FALSE], TRUE, 0)
     ELSE Res([el EXCEPT !.code = Store(e, bytes), !.addr = e.addr + k], FALSE, 0)

Label(e, name) ==
  IF name \in DOMAIN e.labels THEN Res(e, TRUE, 0)
  ELSE LET e1 == [e EXCEPT !.labels = FnPut(@, name, e.addr)]
           e2 == IF "label_before_base" \in Dev
                 THEN (IF e.gen THEN [e1 EXCEPT !.lines = Append(@, Ln("label", e.addr, 0, name))] ELSE e1)
                 ELSE AddLine(e1, Ln("label", e.addr, 0, name))
       IN Res(e2, FALSE, e.addr)
Comment(e, s)  == Res(AddLine(e, Ln("comment", e.addr, 0, s)), FALSE, 0)
SetBase(e, a)  == Res([e EXCEPT !.base = a, !.addr = a, !.baseSet = TRUE], FALSE, 0)
AssumeREP(e, c) == Res([e EXCEPT !.flags = FClear(@, c % 256)], FALSE, 0)
AssumeSEP(e, c) == Res([e EXCEPT !.flags = FSet(@, c % 256)], FALSE, 0)

\* generic dispatcher: c = [m |-> method name, a |-> argument tuple]
Call(e, c) ==
  CASE c.m = "Label"     -> Label(e, c.a[1])
    [] c.m = "Comment"   -> Comment(e, c.a[1])
    [] c.m = "EmitBytes" -> EmitBytes(e, c.a)
    [] c.m = "SetBase"   -> SetBase(e, c.a[1])
    [] c.m = "AssumeREP" -> AssumeREP(e, c.a[1])
    [] c.m = "AssumeSEP" -> AssumeSEP(e, c.a[1])
    [] OTHER             -> Instr(e, c.m, c.a)

-----------------------------------------------------------------------------
(* Finalize (C06) *)
RefSet(d) == UNION { { <<l, d[l][i]>> : i \in 1..Len(d[l]) } : l \in DOMAIN d }
Defined(e, r) == r[1] \in DOMAIN e.labels
Dist(e, r)    == e.labels[r[1]] - (r[2] + 1)            \* from the end of the branch to the label
InRange(e, r) == Dist(e, r) >= -128 /\ Dist(e, r) <= 127
FinalizeOK(e) == /\ \A r \in RefSet(e.d8) \cup RefSet(e.d16) : Defined(e, r)
                 /\ \A r \in RefSet(e.d8) : InRange(e, r)
Pos(e, a) == a - e.base + 1                              \* 1-based index of address a in code
Patched(e) ==
  LET r8 == RefSet(e.d8)  r16 == RefSet(e.d16) IN
  [i \in 1..Len(e.code) |->
     IF \E r \in r8 : Pos(e, r[2]) = i
     THEN LET r == CHOOSE r \in r8 : Pos(e, r[2]) = i IN Dist(e, r) % 256
     ELSE IF \E r \in r16 : Pos(e, r[2]) = i
     THEN LET r == CHOOSE r \in r16 : Pos(e, r[2]) = i IN Lo(e.labels[r[1]] % 65536)
     ELSE IF \E r \in r16 : Pos(e, r[2]) + 1 = i
     THEN LET r == CHOOSE r \in r16 : Pos(e, r[2]) + 1 = i IN Hi(e.labels[r[1]] % 65536)
     ELSE e.code[i]]
OperandPositions(e) == { Pos(e, r[2]) : r \in RefSet(e.d8) } \cup { Pos(e, r[2]) : r \in RefSet(e.d16) }
                       \cup { Pos(e, r[2]) + 1 : r \in RefSet(e.d16) }
FinalizeSuccess(e) == [e EXCEPT !.code = Patched(e), !.d8 = <<>>, !.d16 = <<>>]
\* a failing Finalize may have patched some references before it stopped (Go map order): what C06 demands
\* is that ONLY operand bytes of label references differ and that the error names a genuinely bad reference
FailureAllowed(e, code2, err) ==
  /\ Len(code2) = Len(e.code)
  /\ \A i \in 1..Len(code2) : code2[i] # e.code[i] => i \in OperandPositions(e)
  /\ \/ /\ err.class = "unresolved"
        /\ err.label \notin DOMAIN e.labels
        /\ err.label \in DOMAIN e.d8 \cup DOMAIN e.d16
     \/ /\ err.class = "range"
        /\ \E r \in RefSet(e.d8) : Defined(e, r) /\ ~InRange(e, r) /\ err.from = r[2] + 1 /\ err.to = e.labels[r[1]]
     \/ /\ err.class = "other"       \* wording not recognised by the harness: the message must still mention a bad reference
        /\ LET words == { err.words[i] : i \in 1..Len(err.words) }
               nums == { err.nums[i] : i \in 1..Len(err.nums) }
           IN \/ \E r \in RefSet(e.d8) \cup RefSet(e.d16) : ~Defined(e, r) /\ r[1] \in words
              \/ \E r \in RefSet(e.d8) : Defined(e, r) /\ ~InRange(e, r) /\
                    (r[1] \in words \/ (r[2] + 1) \in nums \/ r[2] \in nums \/ (r[2] - 1) \in nums \/ e.labels[r[1]] \in nums)

-----------------------------------------------------------------------------
(* Clone / Append (C16) *)
Clone(e, cap2) == [e EXCEPT !.cap = cap2, !.code = <<>>, !.lines = <<>>, !.starts = <<>>, !.fit = TRUE]
Merge(f, g) == [x \in DOMAIN f \cup DOMAIN g |-> IF x \in DOMAIN g THEN g[x] ELSE f[x]]
AppendEm(a, c) ==
  LET capA == IF a.cap < 0 THEN 0 ELSE a.cap IN
  IF N(a) + N(c) > capA THEN Res([a EXCEPT !.fit = FALSE], TRUE, 0)
  ELSE Res([a EXCEPT !.addr = c.addr, !.baseSet = c.baseSet, !.flags = c.flags,
                     !.base = IF "append_base" \in Dev THEN a.base ELSE c.base,
                     !.code = a.code \o c.code, !.lines = a.lines \o c.lines, !.starts = a.starts \o c.starts, !.fit = a.fit /\ c.fit,
                     !.labels = Merge(a.labels, c.labels), !.d8 = Merge(a.d8, c.d8), !.d16 = Merge(a.d16, c.d16)],
           FALSE, 0)

-----------------------------------------------------------------------------
(* Listings (C15): the abstract content of WriteHexTo / WriteTextTo *)
LineBytes(e, ln) == IF ln.t \in {"db", "ins"} THEN SubSeq(e.code, Pos(e, ln.addr), Pos(e, ln.addr) + ln.cnt - 1) ELSE <<>>
Listing(e) == [i \in 1..Len(e.lines) |->
                 [t |-> e.lines[i].t, addr |-> e.lines[i].addr, bytes |-> LineBytes(e, e.lines[i]), txt |-> e.lines[i].txt]]
Flatten(ss) == LET F[i \in 0..Len(ss)] == IF i = 0 THEN <<>> ELSE F[i - 1] \o ss[i] IN F[Len(ss)]
ListedBytes(e) == Flatten([i \in 1..Len(e.lines) |-> LineBytes(e, e.lines[i])])
ListingReadable(e) == \A i \in 1..Len(e.lines) : e.lines[i].t \in {"db", "ins"} =>
                         Pos(e, e.lines[i].addr) >= 1 /\ Pos(e, e.lines[i].addr) + e.lines[i].cnt - 1 <= Len(e.code)

-----------------------------------------------------------------------------
(* CPU-side decoding of emitted straight-line code (C07): instruction starts under REP/SEP semantics *)
\* (no LET inside the recursive step: TLC re-evaluates lazy LET values along the recursion)
ArgAt(code, i) == IF i + 1 <= Len(code) THEN code[i + 1] ELSE 0
NextW(op, arg, w, bit) == IF op = 194 /\ BitSet(arg, bit) THEN 0 ELSE IF op = 226 /\ BitSet(arg, bit) THEN 1 ELSE w
RECURSIVE Walk(_, _, _, _, _)
Walk(code, i, m, x, acc) ==
  IF i > Len(code) THEN [starts |-> acc, endsClean |-> i = Len(code) + 1, m |-> m, x |-> x]
  ELSE Walk(code, i + InstrLen(code[i], m, x), NextW(code[i], ArgAt(code, i), m, 32), NextW(code[i], ArgAt(code, i), x, 16),
            acc \cup {i})
Boundaries(code, m0, x0) == Walk(code, 1, m0, x0, {})
=============================================================================
