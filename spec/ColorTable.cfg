SPECIFICATION Spec
CONSTANT Dev = {}
