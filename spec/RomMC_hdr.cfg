SPECIFICATION Spec
CONSTANTS
  HalfBank = 96
  Dev = {}
  NBanks = 1
  MaxLen = 0
  MaxOps = 4
  Handles = {}
  BusAddrs = {}
  HdrMode = TRUE
  PokeOffs = {0, 5, 15, 16, 36, 37, 42, 43, 58, 59, 72, 74, 79}
  PokeVals = {0, 51, 255}
  SetNames = {"MakerCode", "OldMakerCode", "EmulatedVectors_NMI", "CheckSum"}
INVARIANT RoundTripImage
INVARIANT RoundTripParse
INVARIANT SerializeLen
INVARIANT VersionRule
INVARIANT OneByteOneField
INVARIANT LayoutOK
INVARIANT NothingElseWrites
CHECK_DEADLOCK FALSE
