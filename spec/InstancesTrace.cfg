SPECIFICATION Spec
INVARIANT Report
POSTCONDITION Consumed
CHECK_DEADLOCK FALSE
