SPECIFICATION Spec
CONSTANTS
  HalfBank = 8
  Dev = {}
  NBanks = 3
  MaxLen = 3
  MaxOps = 6
  Handles = {1, 2}
  BusAddrs = {8, 13, 14, 15, 24, 30, 3, 40}
  HdrMode = FALSE
  PokeOffs = {}
  PokeVals = {}
  SetNames = {}
INVARIANT NoWriteOutsideWindow
INVARIANT NothingElseWrites
INVARIANT WindowInBank
INVARIANT ReadBack
INVARIANT ErrHandlesInert
CHECK_DEADLOCK FALSE
