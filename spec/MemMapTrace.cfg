SPECIFICATION Spec
CONSTANT Dev = {}
INVARIANT C05Uniform
INVARIANT C05Table
INVARIANT C05WellFormed
INVARIANT C05Accepts
INVARIANT C05Aligned
INVARIANT C04RightInverse
INVARIANT C04Collapse
INVARIANT C11Agree
INVARIANT C11ReadWriteSame
INVARIANT C11Mirrors
INVARIANT SysDrift
CHECK_DEADLOCK FALSE
