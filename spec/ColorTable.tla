------------------------------ MODULE ColorTable ------------------------------
(* Exports the per-channel Scale table and the per-colour Luminosity / Unpack tables of      *)
(* Color.tla as JSON, to serve as the oracle of the exhaustive Go sweep over the real MulDiv. *)
EXTENDS Color, Json
ScaleTable == [ch \in 1..32 |-> [m \in 1..256 |-> [d \in 1..255 |-> Scale(ch - 1, m - 1, d)]]]
LumTable   == [c \in 1..32768 |-> Luminosity(c - 1)]
ASSUME JsonSerialize("scale.json", ScaleTable)
ASSUME JsonSerialize("lum.json", LumTable)
VARIABLE z
Init == z = 0
Next == UNCHANGED z
Spec == Init /\ [][Next]_z
=============================================================================
