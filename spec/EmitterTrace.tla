----------------------------- MODULE EmitterTrace -----------------------------
(***************************************************************************)
(* Validates call logs recorded from REAL asm.Emitter objects (vh emit)    *)
(* against Emitter.tla.  The same executor runs seeded random scenarios    *)
(* and the call sequences that TLC exports from EmitterMC (replay), so one *)
(* trace specification serves both conformance directions.                 *)
(*                                                                         *)
(* Strict replay: the specification keeps its OWN emitter records (one per *)
(* id) and applies Emitter.tla's operators; each event must agree with the *)
(* result.  After the first disagreement of a scenario the scenario is     *)
(* `dead` (its remaining events are skipped) and its line joins `bad`.     *)
(* Finalize failures are nondeterministic in the code (Go map order): the  *)
(* specification then adopts the logged code after checking                *)
(* FailureAllowed.                                                         *)
(*                                                                         *)
(* Only what the PUBLIC API shows is compared (Bytes, Len, PC, flags,      *)
(* label addresses, base, Cap, listings, Finalize result).  The private    *)
(* listing records and dangling-reference tables that the hook also logs   *)
(* are NOT compared: the specification keeps its own, and the properties   *)
(* speak about outputs.  The operand bytes of label references that have   *)
(* not been finalized successfully are left open (OperandPositions): no    *)
(* property fixes a placeholder value, so an implementation may resolve    *)
(* backward references eagerly.                                            *)
(***************************************************************************)
EXTENDS Emitter, Json

Trace == ndJsonDeserialize("emit.ndjson")

VARIABLES l, bad, dead, em, why
vars == <<l, bad, dead, em, why>>

TypeName(t) == CASE t \in 0..5 -> "ins" [] t = 6 -> "base" [] t = 7 -> "db" [] t = 8 -> "comment" [] t = 9 -> "label"
\* a logged line record {t, addr, cnt, txt} in the specification's vocabulary
LogLine(x) == Ln(TypeName(x.t), x.addr, x.cnt, x.txt)
LogLines(xs) == [i \in 1..Len(xs) |-> LogLine(xs[i])]
EmptyFn(f) == DOMAIN f = {}
SameFn(f, g) == DOMAIN f = DOMAIN g /\ \A k \in DOMAIN f : f[k] = g[k]

\* Every check yields the SET OF ASPECTS that disagree (empty = the event conforms); the driver maps
\* aspects to properties.
A(cond, name) == IF cond THEN {} ELSE {name}
ProjWhy(e, x) ==
  A(x.n = (IF e.cap < 0 THEN 0 ELSE N(e)), "n") \cup A(x.addr = e.addr, "addr") \cup A(x.base = e.base, "base")
  \cup A(x.flags = e.flags, "flags") \cup A(SameFn(x.labels, e.labels), "labels")

\* real bytes vs the specification's, operand bytes of unresolved label references left open;
\* `off` = index in the specification's code of the first compared byte, minus one
\* (the address of code index i is addr - N + i - 1 both in an original and in a clone, whose code starts at the split)
OperandAddrs(e) == { r[2] : r \in RefSet(e.d8) } \cup { r[2] : r \in RefSet(e.d16) } \cup { r[2] + 1 : r \in RefSet(e.d16) }
EqOpen(real, e, off) == LET open == OperandAddrs(e) IN
  \A i \in 1..Len(real) : (e.addr - N(e) + off + i - 1) \in open \/ real[i] = e.code[off + i]

RefusalKind(old, x) ==      \* why the specification refuses this call (or "none")
  IF x.m = "Label" THEN (IF x.a[1] \in DOMAIN old.labels THEN "label" ELSE "none")
  ELSE IF x.m \in {"Comment", "SetBase", "AssumeREP", "AssumeSEP"} THEN "none"
  ELSE IF x.m = "EmitBytes" THEN (IF Fits(old, Len(x.a)) THEN "none" ELSE "cap")
  ELSE IF ~GuardOK(old, Methods[x.m].guard) THEN "guard"
  ELSE IF ~Fits(old, Len(Encode(x.m, x.a))) THEN "cap" ELSE "none"

CallWhy(old, x) ==
  LET r == Call(old, [m |-> x.m, a |-> x.a])
      rk == RefusalKind(old, x)
  IN IF x.refused # r.refused THEN {"refused_" \o (IF rk = "none" THEN "spurious" ELSE rk)}
     ELSE ProjWhy(r.e, x)
          \cup A(old.cap >= 0 => (Len(x.bytes) = N(r.e) - N(old) /\ EqOpen(x.bytes, r.e, N(old))), "bytes")
          \cup A((x.m = "Label" /\ ~r.refused) => x.ret = r.ret, "ret")

CodeOK(e, code) == e.cap >= 0 => (Len(code) = Len(e.code) /\ EqOpen(code, e, 0))
StateWhy(e, x) ==
  ProjWhy(e, x) \cup A(x.cap = e.cap, "cap") \cup A(CodeOK(e, x.code), "code")

\* listing items as logged by the harness parsers: {t, addr (-1 when the format shows none), bytes, txt}
HexItems(e)  == [i \in 1..Len(e.lines) |-> LET ln == e.lines[i] IN
                   [t |-> ln.t, addr |-> IF ln.t = "base" THEN ln.addr ELSE -1, bytes |-> LineBytes(e, ln),
                    txt |-> IF ln.t \in {"comment", "label"} \/ (ln.t = "ins" /\ ln.txt # "") THEN ln.txt ELSE ""]]
TextItems(e) == [i \in 1..Len(e.lines) |-> LET ln == e.lines[i] IN
                   [t |-> ln.t, addr |-> IF ln.t \in {"base", "db", "ins"} THEN ln.addr ELSE -1, bytes |-> LineBytes(e, ln),
                    txt |-> IF ln.t \in {"comment", "label"} THEN ln.txt ELSE ""]]
ItemsEq(xs, ys, useTxt) == /\ Len(xs) = Len(ys)
                           /\ \A i \in 1..Len(xs) : /\ xs[i].t = ys[i].t /\ xs[i].addr = ys[i].addr /\ xs[i].bytes = ys[i].bytes
                                                    /\ (useTxt /\ ys[i].t \in {"comment", "label"} => xs[i].txt = ys[i].txt)
\* domain of C15: "a program that fit in the buffer" (after a refused call the listing records may
\* already describe bytes that were never stored) with listing generation on
\* The listed bytes are compared with the REAL Bytes() logged with the event (x.code, itself checked against the
\* specification's code by the "code" aspect); where each line sits and how long it is comes from the specification.
ListingOK(e0, x) == (e0.fit /\ e0.cap >= 0 /\ Len(x.code) = Len(e0.code)) =>
  LET e == [e0 EXCEPT !.code = x.code] IN
  /\ ~x.panic /\ ~x.changed
  /\ ListingReadable(e)
  /\ ItemsEq(x.items, IF x.k = "hex" THEN HexItems(e) ELSE TextItems(e), TRUE)
  /\ (x.k = "hex" => x.allbytes = ListedBytes(e))     \* every byte, in order, exactly once = Bytes()
  /\ (x.k = "hex" /\ e.gen => ListedBytes(e) = e.code)

\* C07: opcode fetch addresses of the real CPU (consecutive repeats of one address = a repeating block move)
RECURSIVE DedupR(_, _, _)
DedupR(s, i, acc) == IF i > Len(s) THEN acc
                     ELSE DedupR(s, i + 1, IF i > 1 /\ s[i] = s[i - 1] THEN acc ELSE Append(acc, s[i]))
Dedup(s) == DedupR(s, 1, <<>>)
\* (domain: programs that fit -- a REP/SEP refused for capacity has already updated the tracker)
CpuOK(e, x) == e.fit =>
  /\ ~x.panic
  /\ Dedup(x.fetches) = e.starts
  /\ x.mEnd = (IF M8(e) THEN 1 ELSE 0) /\ x.xEnd = (IF X8(e) THEN 1 ELSE 0)
  /\ LET b == Boundaries(e.code, x.m0, x.x0) IN          \* the specification's own decoder agrees as well
       b.endsClean /\ b.starts = { Pos(e, e.starts[i]) : i \in 1..Len(e.starts) }

\* C03: the library's own CPUs decode the emitted instruction to the same mnemonic and length
DecodeOK(x) == LET mt == Methods[x.m] IN
  /\ x.pri.mn = mt.mn /\ x.alt.mn = mt.mn
  /\ x.pri.len = Len(x.bytes) /\ x.alt.len = Len(x.bytes)
  /\ x.bytes[1] = OpcodeOfMethod(x.m)
  /\ Op(x.bytes[1]).mn = mt.mn /\ Op(x.bytes[1]).mode = mt.mode

Why(x) ==
  CASE x.k = "new"      -> {}
    [] x.k = "call"     -> CallWhy(em[x.id], x)
    [] x.k = "state"    -> StateWhy(em[x.id], x)
    [] x.k = "finalize" -> LET e == em[x.id] IN
                           IF FinalizeOK(e)
                           THEN A(x.err.class = "none", "finalize_spurious_error")
                                \cup A(x.code = Patched(e), "finalize_patch")
                           ELSE A(x.err.class # "none", "finalize_missed_error")
                                \cup A(x.err.class = "none" \/ FailureAllowed(e, x.code, x.err), "finalize_failure_effects")
    [] x.k = "clone"    -> {}
    [] x.k = "append"   -> A(x.refused = AppendEm(em[x.id], em[x.from]).refused, "append_refusal")
    [] x.k \in {"hex", "text"} -> A(ListingOK(em[x.id], x), "listing") \cup A(CodeOK(em[x.id], x.code), "code")
    [] x.k = "twin"     -> { "twin_" \o k : k \in { k \in DOMAIN x.same : ~x.same[k] } }
    [] x.k = "cpu"      -> A(CpuOK(em[x.id], x), "cpu")
    [] x.k = "decode"   -> A(DecodeOK(x), "decode")
    [] x.k = "crash"    -> {"observer_panic"}       \* a public accessor of the real emitter panicked
    [] OTHER            -> {"unknown_event"}
Ok(x) == Why(x) = {}

Upd(f, k, v) == [i \in DOMAIN f \cup {k} |-> IF i = k THEN v ELSE f[i]]
NextEm(x) ==
  CASE x.k = "new"      -> IF x.id = 0 THEN (0 :> New(x.cap, x.gen)) ELSE Upd(em, x.id, New(x.cap, x.gen))
    [] x.k = "call"     -> Upd(em, x.id, Call(em[x.id], [m |-> x.m, a |-> x.a]).e)
    [] x.k = "finalize" -> LET e == em[x.id] IN
                           Upd(em, x.id, IF FinalizeOK(e) THEN FinalizeSuccess(e)
                                         ELSE [e EXCEPT !.code = x.code])
    [] x.k = "clone"    -> Upd(em, x.id, Clone(em[x.from], x.cap))
    [] x.k = "append"   -> Upd(em, x.id, AppendEm(em[x.id], em[x.from]).e)
    [] OTHER            -> em

Init == l = 1 /\ bad = {} /\ dead = FALSE /\ em = <<>> /\ why = <<>>
Next ==
  /\ l <= Len(Trace)
  /\ LET x == Trace[l]
         fresh == x.k = "new" /\ x.id = 0            \* a new scenario revives a dead trace
         skip == dead /\ ~fresh
         w == IF skip THEN {} ELSE Why(x)
         ok == w = {}
     IN /\ l' = l + 1
        /\ bad' = IF ok THEN bad ELSE bad \cup {l}
        /\ why' = IF ok THEN why ELSE Upd(why, l, w)
        /\ dead' = IF fresh THEN FALSE ELSE (dead \/ ~ok)
        /\ em' = IF skip \/ ~ok THEN (IF fresh THEN NextEm(x) ELSE em) ELSE NextEm(x)
Spec == Init /\ [][Next]_vars

Report == l = Len(Trace) + 1 => \A i \in bad : PrintT(<<"BAD", ToJson([line |-> i, why |-> why[i], ev |-> Trace[i]])>>)
Consumed == TLCGet("stats").diameter - 1 = Len(Trace)
=============================================================================
