SPECIFICATION Spec
CONSTANT Dev = {}
INVARIANT InvRange
INVARIANT InvFloor
INVARIANT InvIdentity
INVARIANT InvMonoM
INVARIANT InvAntiD
INVARIANT InvPackUnpack
INVARIANT InvMulDivBit15
INVARIANT InvUnpackPack
CHECK_DEADLOCK FALSE
