------------------------------ MODULE SystemTrace ------------------------------
(***************************************************************************)
(* C11 as a state machine with history: reads and writes through the       *)
(* emulated System's bus and direct stores into its ROM / SRAM / WRAM      *)
(* arrays, interleaved on groups of MIRRORED bus addresses.  The model is   *)
(* one byte store per memory class addressed by the cell that MemMap.tla's *)
(* LoROM table designates for the bus address: a read returns the cell's   *)
(* current content whatever mirror it goes through, a write changes        *)
(* exactly that cell.                                                      *)
(* sys.ndjson: {k:"rd",a,v} {k:"wr",a,v} {k:"poke",cls,idx,v}              *)
(*             {k:"peek",cls,idx,v} {k:"reset"}                            *)
(***************************************************************************)
EXTENDS MemMap, Json
Trace == ndJsonDeserialize("sys.ndjson")
VARIABLES l, bad, mem
vars == <<l, bad, mem>>

ClsNo(c) == CASE c = "ROM" -> 1 [] c = "SRAM" -> 2 [] c = "WRAM" -> 3
Init0(cls, idx) == ((idx * 7) + (cls * 13) + (idx \div 512)) % 256
CellOf(a) == LET p == LoROM(a) IN <<ClsNo(Class(p)), p - ClassBase(Class(p))>>
Get(c) == IF c \in DOMAIN mem THEN mem[c] ELSE Init0(c[1], c[2])
Put(c, v) == [x \in DOMAIN mem \cup {c} |-> IF x = c THEN v ELSE mem[x]]

B3(a, i) == (a \div 65536) * 65536 + ((a + i) % 65536)         \* i-th byte of a 24-bit read, wrapping inside the bank
Ok(e) == CASE e.k = "rd"   -> e.v = Get(CellOf(e.a))
           [] e.k = "rd24" -> e.v = << Get(CellOf(B3(e.a, 0))) + 256 * Get(CellOf(B3(e.a, 1))), Get(CellOf(B3(e.a, 2))) >>
           [] e.k = "peek" -> e.v = Get(<<e.cls, e.idx>>)
           [] OTHER -> TRUE
Init == l = 1 /\ bad = {} /\ mem = <<>>
Next == /\ l <= Len(Trace) /\ l' = l + 1
        /\ LET e == Trace[l] IN
           /\ bad' = IF Ok(e) THEN bad ELSE bad \cup {l}
           /\ mem' = CASE e.k = "wr"    -> Put(CellOf(e.a), e.v)
                       [] e.k = "poke"  -> Put(<<e.cls, e.idx>>, e.v)
                       [] e.k = "reset" -> <<>>
                       \* after a disagreement follow the real content so that one bug is reported once per cell
                       [] e.k = "rd" /\ ~Ok(e)   -> Put(CellOf(e.a), e.v)
                       [] e.k = "peek" /\ ~Ok(e) -> Put(<<e.cls, e.idx>>, e.v)
                       [] OTHER -> mem
Spec == Init /\ [][Next]_vars
Report == l = Len(Trace) + 1 => \A i \in bad : PrintT(<<"BAD", ToJson([line |-> i, ev |-> Trace[i],
                                   cell |-> IF Trace[i].k \in {"rd", "rd24"} THEN CellOf(Trace[i].a) ELSE <<0, 0>>])>>)
Consumed == TLCGet("stats").diameter - 1 = Len(Trace)
=============================================================================
