-------------------------------- MODULE Color --------------------------------
(* color15: 15-bit BGR colour words (0bbbbbgg gggrrrrr).  Property C17.                     *)
(* Deviation "narrow_before_clamp": the repository's original MulDiv, which narrowed the     *)
(* quotient to 8 bits before saturating (fixed; kept to show the invariants are not vacuous). *)
EXTENDS Integers, Sequences, TLC

CONSTANT Dev

Min(a, b) == IF a < b THEN a ELSE b

Unpack(c)     == [r |-> c % 32, g |-> (c \div 32) % 32, b |-> (c \div 1024) % 32]
Pack(r, g, b) == ((b % 32) * 1024) + ((g % 32) * 32) + (r % 32)

Scale(ch, m, d) == IF "narrow_before_clamp" \in Dev
                   THEN Min(31, ((ch * m) \div d) % 256)
                   ELSE Min(31, (ch * m) \div d)

MulDiv(c, m, d) == LET u == Unpack(c) IN Pack(Scale(u.r, m, d), Scale(u.g, m, d), Scale(u.b, m, d))
Luminosity(c)   == LET u == Unpack(c) IN (u.r + u.g + u.b) \div 3

\* ---- the statements of C17, per channel / per colour
ScaleInRange(ch, m)   == \A d \in 1..255 : Scale(ch, m, d) \in 0..31
ScaleFloor(ch, m)     == \A d \in 1..255 : LET q == (ch * m) \div d IN
                            Scale(ch, m, d) = (IF q > 31 THEN 31 ELSE q)
ScaleIdentity(ch, m)  == m >= 1 => Scale(ch, m, m) = ch
ScaleMonotoneM(ch, m) == m < 255 => \A d \in 1..255 : Scale(ch, m, d) <= Scale(ch, m + 1, d)
ScaleAntitoneD(ch, m) == \A d \in 1..254 : Scale(ch, m, d) >= Scale(ch, m, d + 1)

PackUnpack(c)   == LET u == Unpack(c) IN Pack(u.r, u.g, u.b) = c % 32768      \* bit 15 clear
UnpackPack(x, y, z) == Unpack(Pack(x, y, z)) = [r |-> x % 32, g |-> y % 32, b |-> z % 32]
MulDivNoBit15(c, m, d) == MulDiv(c, m, d) \in 0..32767
=============================================================================
