------------------------------ MODULE EmitterMC ------------------------------
(***************************************************************************)
(* Exhaustive exploration of Emitter.tla over small call alphabets.        *)
(* One state holds up to four emitters fed by the same call sequence:      *)
(*   direct - receives every call                                          *)
(*   orig / clone - the Clone/Append route (C16): calls go to orig before  *)
(*            the split and to the clone after it, then Append             *)
(*   dry    - a twin without target buffer (C19)                           *)
(* `hist` records the call sequence; maximal behaviours are exported as    *)
(* JSON scenarios (Export) and replayed on the REAL emitter by vh emit run *)
(* whose log is then validated by EmitterTrace.tla.                        *)
(***************************************************************************)
EXTENDS Emitter, Json

CONSTANTS Alphabet,     \* "labels" | "listing" | "widths" | "cap"
          Depth,        \* maximal number of calls
          Caps,         \* capacities of direct / orig (chosen in Init)
          Gen,          \* listing generation on
          WithClone, WithDry,
          DoExport

VARIABLES direct, orig, clone, dry, phase, hist, steps, last, w0, origAtClone, over, issued
vars == <<direct, orig, clone, dry, phase, hist, steps, last, w0, origAtClone, over, issued>>

C0(m)        == [m |-> m, a |-> <<>>]
C1(m, x)     == [m |-> m, a |-> <<x>>]
C2(m, x, y)  == [m |-> m, a |-> <<x, y>>]
Data(k)      == [m |-> "EmitBytes", a |-> [i \in 1..k |-> (i * 7) % 256]]
Labs         == {"x", "y"}

Calls ==
  CASE Alphabet = "labels" ->
         { Data(k) : k \in {1, 126, 127, 128} } \cup { C1("Label", l) : l \in Labs }
         \cup { C1("BNE", l) : l \in Labs } \cup { C1("JMP_abs", l) : l \in Labs } \cup { C1("BRA", "x") }
    [] Alphabet = "listing" ->
         { Data(k) : k \in {0, 1, 15, 16, 17, 32, 33} } \cup { C1("Label", "x"), C1("Comment", "c1"), C0("NOP"),
           C1("LDA_abs", 4660), C2("JSL", 22136, 18), C1("BRA", "x"), C1("JMP_abs", "x"), C1("STA_dp", 16) }
    [] Alphabet = "widths" ->
         { C1(m, c) : m \in {"REP", "SEP", "AssumeREP", "AssumeSEP"}, c \in {16, 32, 48} }
         \cup { C1("LDA_imm8_b", 18), C1("LDA_imm16_w", 4660), C1("LDX_imm8_b", 52), C1("LDX_imm16_w", 22136),
                C0("NOP"), C2("LDA_long", 4660, 86), C1("CPY_imm8_b", 1), C1("LDY_imm16_w", 2) }
    [] Alphabet = "cap" ->
         { C0("NOP"), C1("STA_dp", 16), C1("LDA_abs", 4660), C2("JSL", 22136, 18), C1("BNE", "x"), C1("JMP_abs", "x"),
           C1("Label", "x"), Data(1), Data(3), Data(17), C1("REP", 48), C1("SEP", 32), C1("LDA_imm8_b", 1), C1("Comment", "c1") }
Bases == IF Alphabet \in {"labels", "listing"} THEN {32768, 32752} ELSE IF Alphabet = "cap" THEN {32768} ELSE {}   \* $8000, $7FF0

Init ==
  /\ \E cap \in Caps :
       /\ direct = New(cap, Gen)
       /\ orig = IF WithClone THEN New(cap, Gen) ELSE New(0, FALSE)
  /\ clone = New(0, FALSE)
  /\ dry = New(-1, Gen)
  /\ phase = "build" /\ hist = <<>> /\ steps = 0 /\ last = [k |-> "init"] /\ w0 = 0
  /\ origAtClone = New(0, FALSE) /\ over = FALSE /\ issued = <<>>

\* what a call adds to the listing, in issue order (C15)
IssuedBy(e, c, r) ==
  IF ~e.gen THEN <<>>
  ELSE IF c.m = "SetBase" THEN <<"base">>
  ELSE IF r.refused /\ c.m # "EmitBytes" THEN <<>>
  ELSE CASE c.m = "Label" -> <<"label">> [] c.m = "Comment" -> <<"comment">>
         [] c.m = "EmitBytes" -> [i \in 1..((Len(c.a) + 15) \div 16) |-> "db"]
         [] c.m \in {"AssumeREP", "AssumeSEP"} -> <<>>
         [] OTHER -> <<"ins">>

Do(c) ==
  /\ phase \in {"build", "cloned", "appended"} /\ steps < Depth
  /\ (c.m = "SetBase" => steps = 0)
  /\ (c.m \in {"AssumeREP", "AssumeSEP"} /\ Alphabet = "widths" => N(direct) = 0)   \* width assumptions only up front
  /\ LET r == Call(direct, c) IN
     /\ direct' = r.e
     /\ last' = [k |-> "call", c |-> c, refused |-> r.refused, before |-> direct]
     /\ issued' = issued \o IssuedBy(direct, c, r)
     /\ over' = (over \/ (r.refused /\ ~Call(dry, c).refused))
     /\ dry' = IF WithDry /\ ~over' THEN Call(dry, c).e ELSE dry
     /\ w0' = IF N(direct) = 0 /\ N(r.e) = 0 THEN r.e.flags ELSE w0
  /\ IF WithClone /\ phase \in {"build", "appended"} THEN orig' = Call(orig, c).e /\ UNCHANGED clone
     ELSE IF WithClone THEN clone' = Call(clone, c).e /\ UNCHANGED orig
     ELSE UNCHANGED <<orig, clone>>
  /\ hist' = Append(hist, c) /\ steps' = steps + 1
  /\ UNCHANGED <<phase, origAtClone>>

DoClone == /\ WithClone /\ phase = "build"
           /\ \E cap \in Caps : clone' = Clone(orig, cap) /\ hist' = Append(hist, C1("Clone", cap))
           /\ phase' = "cloned" /\ origAtClone' = orig /\ last' = [k |-> "clone"]
           /\ UNCHANGED <<direct, orig, dry, steps, w0, over, issued>>
DoAppend == /\ WithClone /\ phase = "cloned"
            /\ LET r == AppendEm(orig, clone) IN
                 /\ orig' = r.e /\ last' = [k |-> "append", refused |-> r.refused, before |-> orig]
            /\ phase' = "appended" /\ hist' = Append(hist, C0("Append"))
            /\ UNCHANGED <<direct, clone, dry, steps, w0, origAtClone, over, issued>>
DoFinalize == /\ phase \in {"build", "appended"} /\ direct.cap >= 0 /\ Alphabet \in {"labels", "cap"}
              /\ last' = [k |-> "finalize", ok |-> FinalizeOK(direct), before |-> direct]
              /\ direct' = IF FinalizeOK(direct) THEN FinalizeSuccess(direct) ELSE direct
              /\ orig' = IF WithClone /\ FinalizeOK(orig) THEN FinalizeSuccess(orig) ELSE orig
              /\ phase' = "done" /\ hist' = Append(hist, C0("Finalize"))
              /\ UNCHANGED <<clone, dry, steps, w0, origAtClone, over, issued>>

Next == (\E c \in Calls \cup { C1("SetBase", b) : b \in Bases } : Do(c)) \/ DoClone \/ DoAppend \/ DoFinalize
Spec == Init /\ [][Next]_vars

-----------------------------------------------------------------------------
\* C19
NeverOverCapacity == direct.cap >= 0 => N(direct) <= direct.cap
RefusalIsAtomic == (last.k = "call" /\ last.refused) =>
                     /\ direct.code = last.before.code /\ direct.addr = last.before.addr
                     /\ direct.labels = last.before.labels /\ direct.d8 = last.before.d8 /\ direct.d16 = last.before.d16
DryRunTracks == (WithDry /\ ~over /\ phase # "done") =>
                  dry.addr = direct.addr /\ dry.labels = direct.labels /\ dry.flags = direct.flags /\ N(dry) = 0
                  /\ dry.d8 = direct.d8 /\ dry.d16 = direct.d16

\* C16
Obs(e) == [code |-> e.code, addr |-> e.addr, flags |-> e.flags, labels |-> e.labels, lines |-> e.lines, base |-> e.base,
           d8 |-> e.d8, d16 |-> e.d16, finok |-> FinalizeOK(e), fincode |-> IF FinalizeOK(e) THEN Patched(e) ELSE <<>>]
CloneAppendEquivalent == (WithClone /\ phase \in {"appended", "done"} /\ direct.fit /\ orig.fit /\ clone.fit) =>
                            Obs(orig) = Obs(direct)
OriginalUntouchedWhileCloned == (WithClone /\ phase = "cloned") => orig = origAtClone
RefusedAppendIsAtomic == (last.k = "append" /\ last.refused) =>
                            [orig EXCEPT !.fit = TRUE] = [last.before EXCEPT !.fit = TRUE]

\* C15
ListingComplete == (Gen /\ direct.fit /\ direct.cap >= 0) => ListingReadable(direct) /\ ListedBytes(direct) = direct.code
ListingAddresses == (Gen /\ direct.fit /\ direct.cap >= 0) =>
                      \A i \in 1..Len(direct.lines) : direct.lines[i].t \in {"db", "ins"} =>
                         \* the line's address is where its bytes sit: base + number of bytes listed before it
                         direct.lines[i].addr = direct.base + Len(Flatten([j \in 1..(i - 1) |-> LineBytes(direct, direct.lines[j])]))
ListingOrder == (Gen /\ direct.fit) =>
                  LET ts == [i \in 1..Len(direct.lines) |-> direct.lines[i].t] IN
                  ts = issued \/ (Len(issued) = Len(ts) + 1 /\ issued[Len(issued)] = "base" /\ ts = SubSeq(issued, 1, Len(ts)))

\* C06
PatchedCorrect == (last.k = "finalize" /\ last.ok) =>
   LET b == last.before IN
   /\ \A r \in RefSet(b.d8) : direct.code[Pos(b, r[2])] = (b.labels[r[1]] - (r[2] + 1)) % 256
                              /\ b.labels[r[1]] - (r[2] + 1) \in -128..127
   /\ \A r \in RefSet(b.d16) : direct.code[Pos(b, r[2])] + 256 * direct.code[Pos(b, r[2]) + 1] = b.labels[r[1]] % 65536
   /\ \A i \in 1..Len(direct.code) : i \notin OperandPositions(b) => direct.code[i] = b.code[i]
   /\ direct.d8 = <<>> /\ direct.d16 = <<>>
FailureChangesNothing == (last.k = "finalize" /\ ~last.ok) => direct = last.before
DuplicateLabelRefused == (last.k = "call" /\ last.c.m = "Label") =>
                            (last.refused <=> last.c.a[1] \in DOMAIN last.before.labels)

\* C07
DecodesAtSameBoundaries == (Alphabet = "widths" /\ direct.fit) =>
   LET b == Boundaries(direct.code, IF BitSet(w0, 32) THEN 1 ELSE 0, IF BitSet(w0, 16) THEN 1 ELSE 0) IN
   /\ b.endsClean
   /\ b.starts = { Pos(direct, direct.starts[i]) : i \in 1..Len(direct.starts) }
   /\ b.m = (IF M8(direct) THEN 1 ELSE 0) /\ b.x = (IF X8(direct) THEN 1 ELSE 0)
ImmediateRefusedIffWidthMismatch == (last.k = "call" /\ last.c.m \in MethodNames /\ Methods[last.c.m].guard # "") =>
   (last.refused <=> (~GuardOK(last.before, Methods[last.c.m].guard) \/ ~Fits(last.before, Len(Encode(last.c.m, last.c.a)))))

\* C03 (on every accepted instruction call of any alphabet): emitted length = architectural length under the tracked widths
EmittedLengthIsArchitectural == (last.k = "call" /\ ~last.refused /\ last.c.m \in MethodNames) =>
   Len(Encode(last.c.m, last.c.a)) = ArchLen(last.c.m, last.before)
   /\ direct.addr = last.before.addr + ArchLen(last.c.m, last.before)

-----------------------------------------------------------------------------
\* behaviour export for replay on the real emitter (maximal behaviours only)
Maximal == steps = Depth \/ phase = "done"
Export == (DoExport /\ Maximal /\ (WithClone => phase \in {"appended", "done"})) =>
            PrintT(<<"BEH", ToJson([cap |-> direct.cap, gen |-> Gen, dry |-> WithDry, calls |-> hist])>>)
=============================================================================
