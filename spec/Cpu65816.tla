------------------------------- MODULE Cpu65816 -------------------------------
(***************************************************************************)
(* The WDC 65C816 programming model in NATIVE mode (E = 0), one            *)
(* instruction per Step: the oracle of property C01 (and of the native,    *)
(* binary part of C02 / C08 / C14).  Written from the WDC W65C816S data    *)
(* sheet and "Programming the 65816" (see DESIGN.md appendix A for the     *)
(* rules encoded), NOT from the repository's interpreters.                 *)
(*                                                                         *)
(* Architectural state s:                                                  *)
(*   C (16-bit B:A)  X  Y  S  D  DBR  K  PC  P (NVMXDIZC)  E  stp           *)
(* Memory is a function Rd(_) on 24-bit addresses supplied by the caller.  *)
(* Step(Rd, s, dv) = [post, wr, free]: post-state, the sequence of bus     *)
(* writes <<addr, value>>, and `free` = the set of post-state components   *)
(* the programming model leaves open (decimal-mode V, results of decimal   *)
(* arithmetic on invalid BCD digits, the PC after WAI/STP).                *)
(* dv = set of named deviations describing what the repository's code      *)
(* actually does where it is known to differ (known findings).             *)
(***************************************************************************)
EXTENDS Integers, Sequences, FiniteSets, Bitwise, TLC, ISA

W8(x)  == x % 256
W16(x) == x % 65536
W24(x) == x % 16777216
Lo(x)  == x % 256
Hi(x)  == (x \div 256) % 256
At(b, a) == b * 65536 + a
Bit(p, b) == (p \div b) % 2            \* b is the bit's weight

FN == 128  FV == 64  FM == 32  FX == 16  FD == 8  FI == 4  FZ == 2  FC == 1
SetF(p, f, v) == p - f * Bit(p, f) + f * v
SetNZ(p, v, bits) == SetF(SetF(p, FN, IF v >= 2 ^ (bits - 1) THEN 1 ELSE 0), FZ, IF v = 0 THEN 1 ELSE 0)

\* ---- memory helpers (Rd is a one-argument operator)
R16z(Rd(_), a)  == Rd(a) + 256 * Rd(W16(a + 1))                              \* bank 0, wraps inside bank 0
R24z(Rd(_), a)  == Rd(a) + 256 * Rd(W16(a + 1)) + 65536 * Rd(W16(a + 2))
R16k(Rd(_), k, a) == Rd(At(k, a)) + 256 * Rd(At(k, W16(a + 1)))              \* wraps inside bank k
R16x(Rd(_), ea) == Rd(ea) + 256 * Rd(W24(ea + 1))                            \* crosses banks, wraps at 2^24

\* ---- operand location: [kind, ea, len]; kind "imm" (operand follows the opcode, wraps in K),
\*      "z" (bank 0, 16-bit data wraps in bank 0), "x" (24-bit, 16-bit data crosses banks), "acc", "none"
Loc(Rd(_), s, mode) ==
  LET k == s.K  pc == s.PC
      o1 == Rd(At(k, W16(pc + 1)))
      o2 == Rd(At(k, W16(pc + 2)))
      o3 == Rd(At(k, W16(pc + 3)))
      a16 == o1 + 256 * o2
      a24 == a16 + 65536 * o3
      dbr == s.DBR * 65536
      L(kind, ea) == [kind |-> kind, ea |-> ea]
  IN CASE mode = "dp"   -> L("z", W16(s.D + o1))
       [] mode = "dpx"  -> L("z", W16(s.D + o1 + s.X))
       [] mode = "dpy"  -> L("z", W16(s.D + o1 + s.Y))
       [] mode = "sr"   -> L("z", W16(s.S + o1))
       [] mode = "idp"  -> L("x", dbr + R16z(Rd, W16(s.D + o1)))
       [] mode = "idx"  -> L("x", dbr + R16z(Rd, W16(s.D + o1 + s.X)))
       [] mode = "idy"  -> L("x", W24(dbr + R16z(Rd, W16(s.D + o1)) + s.Y))
       [] mode = "idl"  -> L("x", R24z(Rd, W16(s.D + o1)))
       [] mode = "idly" -> L("x", W24(R24z(Rd, W16(s.D + o1)) + s.Y))
       [] mode = "sry"  -> L("x", W24(dbr + R16z(Rd, W16(s.S + o1)) + s.Y))
       [] mode = "abs"  -> L("x", dbr + a16)
       [] mode = "abx"  -> L("x", W24(dbr + a16 + s.X))
       [] mode = "aby"  -> L("x", W24(dbr + a16 + s.Y))
       [] mode = "abl"  -> L("x", a24)
       [] mode = "alx"  -> L("x", W24(a24 + s.X))
       [] mode \in {"immM", "immX", "imm8", "imm16"} -> L("imm", At(k, W16(pc + 1)))
       [] mode = "acc"  -> L("acc", 0)
       [] OTHER         -> L("none", 0)

Addr2(loc, k) == CASE loc.kind = "imm" -> At(k, W16((loc.ea % 65536) + 1))
                   [] loc.kind = "z"   -> W16(loc.ea + 1)
                   [] OTHER            -> W24(loc.ea + 1)
RdW(Rd(_), loc, k, bits) == IF bits = 8 THEN Rd(loc.ea) ELSE Rd(loc.ea) + 256 * Rd(Addr2(loc, k))
WrW(loc, k, v, bits) == IF bits = 8 THEN << <<loc.ea, Lo(v)>> >>
                        ELSE << <<loc.ea, Lo(v)>>, <<Addr2(loc, k), Hi(v)>> >>

\* ---- stack: push writes 00:S then decrements; pull increments then reads 00:S.
\* Native mode (E = 0, property C01): S is a 16-bit pointer into bank 0.
\* Emulation mode (E = 1) is specified AS IMPLEMENTED by both interpreters (outside every listed property; the named
\* differences from the WDC model are collected in DESIGN.md): after every pushed or pulled byte the pointer is forced
\* to $10xx -- "emu_stack_page10"; the WDC model keeps the emulation-mode stack in page $01.
SDe(sp, e) == IF e = 1 THEN 4096 + ((sp + 255) % 256) ELSE W16(sp - 1)
SUe(sp, e) == IF e = 1 THEN 4096 + ((sp + 1) % 256) ELSE W16(sp + 1)

\* ---- width-dependent flag rule: setting X clears the index high bytes
ApplyP(s, p) == LET x8 == Bit(p, FX) = 1 IN
                [s EXCEPT !.P = p, !.X = IF x8 THEN Lo(s.X) ELSE s.X, !.Y = IF x8 THEN Lo(s.Y) ELSE s.Y]

\* ---- decimal arithmetic
ValidBCD(v, bits) == \A i \in 0..((bits \div 4) - 1) : (v \div (16 ^ i)) % 16 <= 9
FromBCD(v, bits) == LET d(i) == (v \div (16 ^ i)) % 16 IN
                    IF bits = 8 THEN d(0) + 10 * d(1) ELSE d(0) + 10 * d(1) + 100 * d(2) + 1000 * d(3)
ToBCD(n, bits) == LET d(i) == (n \div (10 ^ i)) % 10 IN
                  IF bits = 8 THEN d(0) + 16 * d(1) ELSE d(0) + 16 * d(1) + 256 * d(2) + 4096 * d(3)

\* what the repository's interpreters do in decimal mode (known finding "dec_bcd"): binary sum, then
\* +6 / +$60 ... fix-ups without carrying between the tests; SBC adds the one's complement the same way
CodeDecimal(a, v, c, bits, isSbc) ==
  LET top == 2 ^ bits
      d == IF isSbc THEN (top - 1) - v ELSE v
      s0 == a + d + c
      s1 == IF (s0 % 16) > 9 THEN s0 + 6 ELSE s0
      s2 == IF ((s1 \div 16) % 16) > 9 THEN s1 + 96 ELSE s1
      s3 == IF bits = 16 /\ ((s2 \div 256) % 16) > 9 THEN s2 + 1536 ELSE s2
      s4 == IF bits = 16 /\ ((s3 \div 4096) % 16) > 9 THEN s3 + 24576 ELSE s3
      sign == top \div 2
      sb(x) == (x \div sign) % 2
  IN [r |-> s4 % top, c |-> IF s4 >= top THEN 1 ELSE 0,
      v |-> IF sb(a) = sb(d) /\ sb(a) # sb(s4) THEN 1 ELSE 0]

\* ADC / SBC: returns [r, c, v, free]
AddSub(a, v, c, bits, dec, isSbc, dv) ==
  LET top == 2 ^ bits
      sign == top \div 2
      sb(x) == (x \div sign) % 2
  IN IF ~dec
     THEN LET d == IF isSbc THEN (top - 1) - v ELSE v
              sum == a + d + c
              r == sum % top
          IN [r |-> r, c |-> sum \div top, v |-> IF sb(a) = sb(d) /\ sb(a) # sb(r) THEN 1 ELSE 0, free |-> {}]
     ELSE IF "dec_bcd" \in dv
     THEN LET q == CodeDecimal(a, v, c, bits, isSbc) IN [r |-> q.r, c |-> q.c, v |-> q.v, free |-> {}]
     ELSE IF ~ValidBCD(a, bits) \/ ~ValidBCD(v, bits)
     THEN [r |-> 0, c |-> 0, v |-> 0, free |-> {"A", "N", "V", "Z", "C"}]
     ELSE LET lim == IF bits = 8 THEN 100 ELSE 10000
              x == FromBCD(a, bits)  y == FromBCD(v, bits)
              n == IF isSbc THEN x - y - (1 - c) ELSE x + y + c
              r == ToBCD((n + lim) % lim, bits)
              co == IF isSbc THEN (IF n >= 0 THEN 1 ELSE 0) ELSE (IF n >= lim THEN 1 ELSE 0)
          IN [r |-> r, c |-> co, v |-> 0, free |-> {"V"}]

\* ---- helpers to build results
Res(post, wr, free) == [post |-> post, wr |-> wr, free |-> free]
SetA(s, v, m8) == IF m8 THEN 256 * Hi(s.C) + Lo(v) ELSE W16(v)        \* 8-bit accumulator writes keep B

Step(Rd(_), s, dv) ==
  LET op  == Rd(At(s.K, s.PC))
      ins == Op(op)
      mn  == ins.mn
      mode == ins.mode
      m8  == Bit(s.P, FM) = 1
      x8  == Bit(s.P, FX) = 1
      mbits == IF m8 THEN 8 ELSE 16
      xbits == IF x8 THEN 8 ELSE 16
      len == InstrLen(op, Bit(s.P, FM), Bit(s.P, FX))
      npc == W16(s.PC + len)
      nx  == [s EXCEPT !.PC = npc]                     \* default successor: only PC advances
      loc == Loc(Rd, s, mode)
      A   == IF m8 THEN Lo(s.C) ELSE s.C
      k   == s.K
      o1  == Rd(At(k, W16(s.PC + 1)))
      o2  == Rd(At(k, W16(s.PC + 2)))
      o3  == Rd(At(k, W16(s.PC + 3)))
      a16 == o1 + 256 * o2
      cf  == Bit(s.P, FC)
      rel8  == W16(s.PC + 2 + (IF o1 < 128 THEN o1 ELSE o1 - 256) + 65536)
      rel16 == W16(s.PC + 3 + a16)
      Branch(cond) == Res(IF cond THEN [s EXCEPT !.PC = rel8] ELSE nx, <<>>, {})
      em  == s.E = 1
      SD(sp) == SDe(sp, s.E)
      s1 == SD(s.S)  s2 == SD(s1)  s3 == SD(s2)  s4 == SD(s3)          \* S after 1..4 pushed bytes
      u1 == SUe(s.S, s.E)  u2 == SUe(u1, s.E)  u3 == SUe(u2, s.E)  u4 == SUe(u3, s.E)   \* addresses of 1..4 pulled bytes
      PS1(a) == << <<s.S, a>> >>
      PS2(a, b) == << <<s.S, a>>, <<s1, b>> >>
      PS3(a, b, c) == << <<s.S, a>>, <<s1, b>>, <<s2, c>> >>
      PS4(a, b, c, d) == << <<s.S, a>>, <<s1, b>>, <<s2, c>>, <<s3, d>> >>
      PW(v) == PS2(Hi(v), Lo(v))                                         \* a 16-bit push: high byte first
      Pull8 == Rd(u1)
      Pull16 == Rd(u1) + 256 * Rd(u2)
      ApplyPE(st, p) == ApplyP(st, IF em THEN p | 48 ELSE p)             \* emulation mode: M and X stay 1
  IN
  CASE mn \in {"ora", "and", "eor", "lda"} ->
         LET v == RdW(Rd, loc, k, mbits)
             r == CASE mn = "ora" -> A | v [] mn = "and" -> A & v [] mn = "eor" -> A ^^ v [] mn = "lda" -> v
         IN Res([nx EXCEPT !.C = SetA(s, r, m8), !.P = SetNZ(s.P, r, mbits)], <<>>, {})
    [] mn \in {"adc", "sbc"} ->
         LET v == RdW(Rd, loc, k, mbits)
             q == AddSub(A, v, cf, mbits, Bit(s.P, FD) = 1, mn = "sbc", dv)
             p1 == SetF(SetF(SetNZ(s.P, q.r, mbits), FC, q.c), FV, q.v)
         IN Res([nx EXCEPT !.C = SetA(s, q.r, m8), !.P = p1], <<>>, q.free)
    [] mn = "cmp" ->
         LET v == RdW(Rd, loc, k, mbits)  d == (A - v + 65536) % (2 ^ mbits)
         IN Res([nx EXCEPT !.P = SetF(SetNZ(s.P, d, mbits), FC, IF A >= v THEN 1 ELSE 0)], <<>>, {})
    [] mn \in {"cpx", "cpy"} ->
         LET r == IF mn = "cpx" THEN s.X ELSE s.Y
             v == RdW(Rd, loc, k, xbits)  d == (r - v + 65536) % (2 ^ xbits)
         IN Res([nx EXCEPT !.P = SetF(SetNZ(s.P, d, xbits), FC, IF r >= v THEN 1 ELSE 0)], <<>>, {})
    [] mn = "bit" ->
         LET v == RdW(Rd, loc, k, mbits)
             pz == SetF(s.P, FZ, IF (A & v) = 0 THEN 1 ELSE 0)
             pnv == SetF(SetF(pz, FN, Bit(v, 2 ^ (mbits - 1))), FV, Bit(v, 2 ^ (mbits - 2)))
         IN Res([nx EXCEPT !.P = IF mode = "immM" THEN pz ELSE pnv], <<>>, {})
    [] mn \in {"ldx", "ldy"} ->
         LET v == RdW(Rd, loc, k, xbits) IN
         Res(IF mn = "ldx" THEN [nx EXCEPT !.X = v, !.P = SetNZ(s.P, v, xbits)]
                           ELSE [nx EXCEPT !.Y = v, !.P = SetNZ(s.P, v, xbits)], <<>>, {})
    [] mn = "sta" -> Res(nx, WrW(loc, k, A, mbits), {})
    [] mn = "stx" -> Res(nx, WrW(loc, k, s.X, xbits), {})
    [] mn = "sty" -> Res(nx, WrW(loc, k, s.Y, xbits), {})
    [] mn = "stz" -> Res(nx, WrW(loc, k, 0, mbits), {})
    [] mn \in {"asl", "lsr", "rol", "ror", "inc", "dec"} ->
         LET top == 2 ^ mbits
             v == IF mode = "acc" THEN A ELSE RdW(Rd, loc, k, mbits)
             r == CASE mn = "asl" -> (v * 2) % top
                    [] mn = "lsr" -> v \div 2
                    [] mn = "rol" -> ((v * 2) % top) + cf
                    [] mn = "ror" -> (v \div 2) + cf * (top \div 2)
                    [] mn = "inc" -> (v + 1) % top
                    [] mn = "dec" -> (v + top - 1) % top
             c2 == CASE mn \in {"asl", "rol"} -> Bit(v, top \div 2)
                     [] mn \in {"lsr", "ror"} -> v % 2
                     [] OTHER -> cf
             p1 == SetF(SetNZ(s.P, r, mbits), FC, c2)
         IN IF mode = "acc" THEN Res([nx EXCEPT !.C = SetA(s, r, m8), !.P = p1], <<>>, {})
            ELSE Res([nx EXCEPT !.P = p1], WrW(loc, k, r, mbits), {})
    [] mn \in {"tsb", "trb"} ->
         LET v == RdW(Rd, loc, k, mbits)
             r == IF mn = "tsb" THEN v | A ELSE v & ((2 ^ mbits - 1) - A)
         IN Res([nx EXCEPT !.P = SetF(s.P, FZ, IF (v & A) = 0 THEN 1 ELSE 0)], WrW(loc, k, r, mbits), {})
    [] mn \in {"inx", "iny", "dex", "dey"} ->
         LET top == 2 ^ xbits
             v == IF mn \in {"inx", "dex"} THEN s.X ELSE s.Y
             r == IF mn \in {"inx", "iny"} THEN (v + 1) % top ELSE (v + top - 1) % top
         IN Res(IF mn \in {"inx", "dex"} THEN [nx EXCEPT !.X = r, !.P = SetNZ(s.P, r, xbits)]
                                         ELSE [nx EXCEPT !.Y = r, !.P = SetNZ(s.P, r, xbits)], <<>>, {})
    \* ---- transfers
    [] mn \in {"tax", "tay"} ->
         LET r == IF x8 THEN Lo(s.C) ELSE s.C IN
         Res(IF mn = "tax" THEN [nx EXCEPT !.X = r, !.P = SetNZ(s.P, r, xbits)]
                           ELSE [nx EXCEPT !.Y = r, !.P = SetNZ(s.P, r, xbits)], <<>>, {})
    [] mn \in {"txa", "tya"} ->
         LET v == IF mn = "txa" THEN s.X ELSE s.Y
             r == IF m8 THEN Lo(v) ELSE v
         IN Res([nx EXCEPT !.C = SetA(s, r, m8), !.P = SetNZ(s.P, r, mbits)], <<>>, {})
    [] mn = "txy" -> Res([nx EXCEPT !.Y = s.X, !.P = SetNZ(s.P, s.X, xbits)], <<>>, {})
    [] mn = "tyx" -> Res([nx EXCEPT !.X = s.Y, !.P = SetNZ(s.P, s.Y, xbits)], <<>>, {})
    [] mn = "tsx" -> LET r == IF x8 THEN Lo(s.S) ELSE s.S IN Res([nx EXCEPT !.X = r, !.P = SetNZ(s.P, r, xbits)], <<>>, {})
    [] mn = "txs" -> Res([nx EXCEPT !.S = IF em THEN 256 + Lo(s.X) ELSE s.X], <<>>, {})
    [] mn = "tcs" -> Res([nx EXCEPT !.S = IF em THEN 256 + Lo(s.C) ELSE s.C], <<>>, {})
    [] mn = "tsc" -> Res([nx EXCEPT !.C = s.S, !.P = SetNZ(s.P, s.S, 16)], <<>>, {})
    [] mn = "tcd" -> Res([nx EXCEPT !.D = s.C, !.P = SetNZ(s.P, s.C, 16)], <<>>, {})
    [] mn = "tdc" -> Res([nx EXCEPT !.C = s.D, !.P = SetNZ(s.P, s.D, 16)], <<>>, {})
    [] mn = "xba" -> LET r == 256 * Lo(s.C) + Hi(s.C) IN Res([nx EXCEPT !.C = r, !.P = SetNZ(s.P, Lo(r), 8)], <<>>, {})
    \* ---- flags
    [] mn = "clc" -> Res([nx EXCEPT !.P = SetF(s.P, FC, 0)], <<>>, {})
    [] mn = "sec" -> Res([nx EXCEPT !.P = SetF(s.P, FC, 1)], <<>>, {})
    [] mn = "cli" -> Res([nx EXCEPT !.P = SetF(s.P, FI, 0)], <<>>, {})
    [] mn = "sei" -> Res([nx EXCEPT !.P = SetF(s.P, FI, 1)], <<>>, {})
    [] mn = "cld" -> Res([nx EXCEPT !.P = SetF(s.P, FD, 0)], <<>>, {})
    [] mn = "sed" -> Res([nx EXCEPT !.P = SetF(s.P, FD, 1)], <<>>, {})
    [] mn = "clv" -> Res([nx EXCEPT !.P = SetF(s.P, FV, 0)], <<>>, {})
    [] mn = "rep" -> Res(ApplyPE(nx, s.P & (255 - o1)), <<>>, {})
    [] mn = "sep" -> Res(ApplyPE(nx, s.P | o1), <<>>, {})
    [] mn = "xce" ->
         IF cf = 0 THEN Res([nx EXCEPT !.P = SetF(s.P, FC, s.E), !.E = 0], <<>>, {})   \* C := old E, native from now on
         ELSE Res([ApplyP(nx, SetF(s.P | 48, FC, s.E)) EXCEPT !.E = 1, !.S = 256 + Lo(s.S)], <<>>, {})
    \* ---- branches, jumps
    [] mn = "bpl" -> Branch(Bit(s.P, FN) = 0)
    [] mn = "bmi" -> Branch(Bit(s.P, FN) = 1)
    [] mn = "bvc" -> Branch(Bit(s.P, FV) = 0)
    [] mn = "bvs" -> Branch(Bit(s.P, FV) = 1)
    [] mn = "bcc" -> Branch(Bit(s.P, FC) = 0)
    [] mn = "bcs" -> Branch(Bit(s.P, FC) = 1)
    [] mn = "bne" -> Branch(Bit(s.P, FZ) = 0)
    [] mn = "beq" -> Branch(Bit(s.P, FZ) = 1)
    [] mn = "bra" -> Branch(TRUE)
    [] mn = "brl" -> Res([s EXCEPT !.PC = rel16], <<>>, {})
    [] mn = "jmp" ->
         (CASE mode = "abs" -> Res([s EXCEPT !.PC = a16], <<>>, {})
            [] mode = "abl" -> Res([s EXCEPT !.PC = a16, !.K = o3], <<>>, {})
            [] mode = "ind" -> Res([s EXCEPT !.PC = R16z(Rd, a16)], <<>>, {})
            [] mode = "ial" -> Res([s EXCEPT !.PC = R16z(Rd, a16), !.K = Rd(W16(a16 + 2))], <<>>, {})
            [] mode = "iax" -> Res([s EXCEPT !.PC = R16k(Rd, k, W16(a16 + s.X))], <<>>, {}))
    [] mn = "jsr" ->
         LET ret == W16(s.PC + 2)
             ptr == W16(a16 + s.X)
             tgt == IF mode = "abs" THEN a16 ELSE R16k(Rd, k, ptr)
             \* (a,X): the return address is pushed before the pointer is read; a pointer lying in the two bytes
             \* just pushed (bank 0) is an order-of-access corner the programming model leaves open
             overlap == mode = "iax" /\ k = 0 /\ ({ptr, W16(ptr + 1)} \cap {s.S, s1} # {})
         IN Res([s EXCEPT !.PC = tgt, !.S = s2], PW(ret), IF overlap THEN {"PC"} ELSE {})
    [] mn = "jsl" ->
         LET ret == W16(s.PC + 3) IN
         Res([s EXCEPT !.PC = a16, !.K = o3, !.S = s3], PS3(k, Hi(ret), Lo(ret)), {})
    [] mn = "rts" -> Res([s EXCEPT !.PC = W16(Pull16 + 1), !.S = u2], <<>>, {})
    [] mn = "rtl" -> Res([s EXCEPT !.PC = W16(Pull16 + 1), !.K = Rd(u3), !.S = u3], <<>>, {})
    [] mn = "rti" -> IF em THEN Res([ApplyPE(s, Rd(u1)) EXCEPT !.PC = Rd(u2) + 256 * Rd(u3), !.S = u3], <<>>, {})   \* no bank byte
                     ELSE Res([ApplyP(s, Rd(u1)) EXCEPT !.PC = Rd(u2) + 256 * Rd(u3), !.K = Rd(u4), !.S = u4], <<>>, {})
    \* ---- stack
    [] mn = "pha" -> IF m8 THEN Res([nx EXCEPT !.S = s1], PS1(Lo(s.C)), {})
                     ELSE Res([nx EXCEPT !.S = s2], PW(s.C), {})
    [] mn \in {"phx", "phy"} ->
         LET v == IF mn = "phx" THEN s.X ELSE s.Y IN
         IF x8 THEN Res([nx EXCEPT !.S = s1], PS1(Lo(v)), {})
         ELSE Res([nx EXCEPT !.S = s2], PW(v), {})
    [] mn = "php" -> Res([nx EXCEPT !.S = s1], PS1(s.P), {})
    [] mn = "phb" -> Res([nx EXCEPT !.S = s1], PS1(s.DBR), {})
    [] mn = "phk" -> Res([nx EXCEPT !.S = s1], PS1(s.K), {})
    [] mn = "phd" -> Res([nx EXCEPT !.S = s2], PW(s.D), {})
    [] mn = "pea" -> Res([nx EXCEPT !.S = s2], PW(a16), {})
    [] mn = "pei" -> Res([nx EXCEPT !.S = s2], PW(R16z(Rd, W16(s.D + o1))), {})
    [] mn = "per" -> Res([nx EXCEPT !.S = s2], PW(rel16), {})
    [] mn = "pla" -> LET v == IF m8 THEN Pull8 ELSE Pull16 IN
                     Res([nx EXCEPT !.C = SetA(s, v, m8), !.P = SetNZ(s.P, v, mbits), !.S = IF m8 THEN u1 ELSE u2], <<>>, {})
    [] mn \in {"plx", "ply"} ->
         LET v == IF x8 THEN Pull8 ELSE Pull16
             n1 == [nx EXCEPT !.P = SetNZ(s.P, v, xbits), !.S = IF x8 THEN u1 ELSE u2]
         IN Res(IF mn = "plx" THEN [n1 EXCEPT !.X = v] ELSE [n1 EXCEPT !.Y = v], <<>>, {})
    [] mn = "plp" -> Res([ApplyPE(nx, Pull8) EXCEPT !.S = u1], <<>>, {})
    [] mn = "plb" -> LET v == Pull8 IN Res([nx EXCEPT !.DBR = v, !.P = SetNZ(s.P, v, 8), !.S = u1], <<>>, {})
    [] mn = "pld" -> LET v == Pull16 IN Res([nx EXCEPT !.D = v, !.P = SetNZ(s.P, v, 16), !.S = u2], <<>>, {})
    \* ---- block moves: one byte per step; the opcode is re-executed until C wraps to $FFFF
    [] mn \in {"mvn", "mvp"} ->
         LET dst == o1  src == o2
             top == 2 ^ xbits
             step(v) == IF mn = "mvn" THEN (v + 1) % top ELSE (v + top - 1) % top
             c2 == (s.C + 65535) % 65536
         IN Res([s EXCEPT !.X = step(s.X), !.Y = step(s.Y), !.C = c2, !.DBR = dst,
                          !.PC = IF c2 = 65535 THEN npc ELSE s.PC],
                << <<At(dst, s.Y), Rd(At(src, s.X))>> >>, {})
    \* ---- software interrupts: native: push K, PC+2, P (vectors $00FFE6 / $00FFE4); emulation (as implemented): push
    \* PC+2, P (BRK with the B bit) (vectors $00FFFE / $00FFF4); then D := 0, I := 1, K := 0, PC := vector
    [] mn \in {"brk", "cop"} ->
         LET vec == IF em THEN (IF mn = "brk" THEN 65534 ELSE 65524) ELSE (IF mn = "brk" THEN 65510 ELSE 65508)
             ret == W16(s.PC + 2)
             wr == IF em THEN PS3(Hi(ret), Lo(ret), IF mn = "brk" THEN s.P | 16 ELSE s.P)
                         ELSE PS4(k, Hi(ret), Lo(ret), s.P)
             \* the vector is fetched AFTER the pushes: a stack that runs over the vector is read back
             RdA(a) == IF \E i \in 1..Len(wr) : wr[i][1] = a
                       THEN wr[CHOOSE i \in 1..Len(wr) : wr[i][1] = a /\ \A j \in 1..Len(wr) : wr[j][1] = a => j <= i][2] ELSE Rd(a)
         IN Res([s EXCEPT !.PC = RdA(vec) + 256 * RdA(vec + 1), !.K = 0, !.S = IF em THEN s3 ELSE s4,
                          !.P = SetF(SetF(s.P, FD, 0), FI, 1)], wr, {})
    [] mn = "stp" -> Res([nx EXCEPT !.stp = 1], <<>>, {"PC"})
    [] mn = "wai" -> Res(nx, <<>>, {"PC"})
    [] OTHER -> Res(nx, <<>>, {})          \* nop, wdm

\* ---- a Step that first dispatches a pending IRQ (as implemented, in both modes alike): push K, PC, P; I := 1, D := 0,
\* K := 0, PC := [$00FFEE]; then the instruction at the handler's first address executes within the same Step.
\* (Named differences from the WDC model in emulation mode: no separate $FFFE vector, the bank byte is pushed.)
StepIrq(Rd(_), s, dv) ==
  LET a1 == SDe(s.S, s.E)  a2 == SDe(a1, s.E)  a3 == SDe(a2, s.E)  a4 == SDe(a3, s.E)
      wr0 == << <<s.S, s.K>>, <<a1, Hi(s.PC)>>, <<a2, Lo(s.PC)>>, <<a3, s.P>> >>
      Rd1(a) == IF \E i \in 1..4 : wr0[i][1] = a
                THEN wr0[CHOOSE i \in 1..4 : wr0[i][1] = a /\ \A j \in 1..4 : wr0[j][1] = a => j <= i][2] ELSE Rd(a)
      sd == [s EXCEPT !.PC = Rd1(65518) + 256 * Rd1(65519), !.K = 0, !.S = a4, !.P = SetF(SetF(s.P, FD, 0), FI, 1)]
      r == Step(Rd1, sd, dv)
  IN [post |-> r.post, wr |-> wr0 \o r.wr, free |-> r.free]

\* ---- comparison of an observed outcome with the model
WrMap(wr) == [a \in { wr[i][1] : i \in 1..Len(wr) } |->
                LET last == CHOOSE i \in 1..Len(wr) : wr[i][1] = a /\ \A j \in 1..Len(wr) : wr[j][1] = a => j <= i IN wr[last][2]]
FreeFlagMask(free) == (IF "N" \in free THEN FN ELSE 0) + (IF "V" \in free THEN FV ELSE 0)
                      + (IF "Z" \in free THEN FZ ELSE 0) + (IF "C" \in free THEN FC ELSE 0)
Matches(r, post, wr) ==
  LET m == FreeFlagMask(r.free)
      e == r.post
  IN /\ ("A" \in r.free \/ post.C = e.C)
     /\ post.X = e.X /\ post.Y = e.Y /\ post.S = e.S /\ post.D = e.D /\ post.DBR = e.DBR /\ post.K = e.K
     /\ ("PC" \in r.free \/ post.PC = e.PC)
     /\ (post.P | m) = (e.P | m)
     /\ post.E = e.E /\ post.stp = e.stp
     /\ WrMap(wr) = WrMap(r.wr)
=============================================================================
