----------------------------- MODULE EmitterTable -----------------------------
(* Prints Emitter.tla's method table (name, opcode, operand kind, guard, mnemonic, mode) as JSON:  *)
(* used by the driver as completeness guard and as oracle table of the exhaustive operand sweep. *)
EXTENDS Emitter, Json, SequencesExt
Names == SetToSeq(MethodNames)
Table == [i \in 1..Len(Names) |-> [name |-> Names[i], op |-> OpcodeOfMethod(Names[i]), kind |-> Methods[Names[i]].kind,
                                   guard |-> Methods[Names[i]].guard, mn |-> Methods[Names[i]].mn, mode |-> Methods[Names[i]].mode]]
ASSUME \A m \in MethodNames : OpcodeOfMethod(m) < 256          \* every (mnemonic, mode) exists in the ISA
ASSUME Unique
ASSUME PrintT(<<"METHODS", ToJson(Table)>>)
VARIABLE z
Init == z = 0
Next == UNCHANGED z
Spec == Init /\ [][Next]_z
=============================================================================
