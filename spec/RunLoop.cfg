SPECIFICATION Spec
CONSTANTS
  PCs = {0, 1, 2, 3}
  MaxBudget = 5
  MinCycles = 1
  MaxCycles = 3
  Logging = TRUE
PROPERTY Termination
INVARIANT NeverExecutesTarget
INVARIANT OnlyWhileUnderBudget
INVARIANT ReturnsTrueIffAtTarget
INVARIANT ExitReason
INVARIANT NothingIfAlreadyThere
INVARIANT LogBeforeEveryInstruction
CHECK_DEADLOCK FALSE
