--------------------------------- MODULE Bus ---------------------------------
(***************************************************************************)
(* emulator/bus.Bus: a routing table of 16-byte blocks -> attached memory. *)
(* Attach / EaRead / EaWrite / EaDump.  Property C13.                      *)
(*                                                                         *)
(* Two descriptions of routing are kept side by side:                      *)
(*   seg      - the implementation-shaped table updated by Attach          *)
(*   RouteLog - the reference semantics "memory most recently attached     *)
(*              over that address", computed from the log of attaches      *)
(* Memories are instrumented: F(m, a) is what memory m returns for the     *)
(* (full, unmodified) bus address a unless a was written through the bus.  *)
(* Deviation "dump_unaligned": the repository's original EaDump, which     *)
(* copied 16 bytes per segment from wherever the range started.            *)
(***************************************************************************)
EXTENDS Integers, Sequences, FiniteSets, TLC

CONSTANT Dev

Nil == 0                                  \* no memory attached
Blk(a) == a \div 16
F(m, a) == ((m * 37) + (a * 11) + ((a \div 256) * 3) + ((a \div 65536) * 5)) % 251     \* never 255
Untouched == 255                          \* sentinel the dump buffer is pre-filled with

Aligned(s, e) == s % 16 = 0 /\ (e + 1) % 16 = 0

\* ---- reference routing from the attach log: sequence of [m, s, e] (successful attaches only)
Covering(log, a) == { i \in 1..Len(log) : Blk(a) >= Blk(log[i].s) /\ Blk(a) <= Blk(log[i].e) }
RouteLog(log, a) == LET c == Covering(log, a) IN
                    IF c = {} THEN Nil ELSE log[CHOOSE i \in c : \A j \in c : j <= i].m

\* ---- memory contents: mv[m] is the sparse set of bytes written through the bus
MemVal(mv, m, a) == IF m \in DOMAIN mv /\ a \in DOMAIN mv[m] THEN mv[m][a] ELSE F(m, a)
MemPut(mv, m, a, v) ==
  LET old == IF m \in DOMAIN mv THEN mv[m] ELSE <<>>
      new == [x \in DOMAIN old \cup {a} |-> IF x = a THEN v ELSE old[x]]
  IN [k \in DOMAIN mv \cup {m} |-> IF k = m THEN new ELSE mv[k]]

\* ---- EaDump, parameterised by a routing function route(_)
\* pointwise definition (what C13 states)
DumpPointwise(route(_), mv, s, e) ==
  [i \in 1..(e - s + 1) |-> LET a == s + i - 1 IN
                             IF route(a) = Nil THEN Untouched ELSE MemVal(mv, route(a), a)]
\* implementation-shaped: segment by segment; chunk k handles the addresses of the range inside block k
DumpBySegment(route(_), mv, s, e) ==
  [i \in 1..(e - s + 1) |->
     LET a == s + i - 1
         k == IF "dump_unaligned" \in Dev
              THEN Blk(s) + ((a - s) \div 16)      \* original: 16 bytes per iteration from wherever it started
              ELSE Blk(a)
         m == route(k * 16)
     IN IF m = Nil THEN Untouched ELSE MemVal(mv, m, a)]
DumpCount(s, e) == e - s + 1
=============================================================================
