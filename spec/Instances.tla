------------------------------- MODULE Instances -------------------------------
(***************************************************************************)
(* C18: separately created emulator systems, CPUs, emitters and ROM        *)
(* objects never interfere.  N instances each run their own fixed program  *)
(* of OpsPer operations; an operation of instance i reads and writes       *)
(* inst[i] and may read the shared read-only tables, nothing else:         *)
(*    inst' = [inst EXCEPT ![i] = F(i, @, shared)]     UNCHANGED shared    *)
(* Independence: along EVERY interleaving, what instance i observes after  *)
(* its k-th operation is what it observes after its k-th operation when    *)
(* run alone.  TLC enumerates all interleavings (schedules); each is       *)
(* exported and executed deterministically on real objects, and a free-    *)
(* running goroutine version is executed under the race detector; the      *)
(* recorded observations are validated by InstancesTrace.tla.              *)
(***************************************************************************)
EXTENDS Integers, Sequences, FiniteSets, TLC, Json

CONSTANTS N, OpsPer, DoExport
VARIABLES inst, shared, sched
vars == <<inst, shared, sched>>

\* abstract per-instance transition: the state is the history of (own) operations applied, tagged with
\* the shared table value it read; any dependence on another instance would make Solo differ
F(i, s, sh) == Append(s, <<i, Len(s) + 1, sh>>)
Solo(i, k) == [j \in 1..k |-> <<i, j, "tables">>]

Init == inst = [i \in 1..N |-> <<>>] /\ shared = "tables" /\ sched = <<>>
Op(i) == /\ Len(inst[i]) < OpsPer
         /\ inst' = [inst EXCEPT ![i] = F(i, @, shared)]
         /\ sched' = Append(sched, i)
         /\ UNCHANGED shared
Next == \E i \in 1..N : Op(i)
Spec == Init /\ [][Next]_vars

NonInterference == [][\A i \in 1..N : \A j \in 1..N : (j # i /\ inst'[i] # inst[i]) => inst'[j] = inst[j]]_vars
SharedReadOnly  == [][shared' = shared]_vars
Independence    == \A i \in 1..N : inst[i] = Solo(i, Len(inst[i]))
Export == (DoExport /\ Len(sched) = N * OpsPer) => PrintT(<<"SCHED", ToJson(sched)>>)
=============================================================================
