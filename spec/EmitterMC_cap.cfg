SPECIFICATION Spec
CONSTANTS
  Dev = {}
  Alphabet = "cap"
  Depth = 4
  Caps = {0, 1, 2, 3, 4, 5, 6, 7, 8, 20}
  Gen = TRUE
  WithClone = FALSE
  WithDry = TRUE
  DoExport = FALSE
CONSTRAINT Export
INVARIANT NeverOverCapacity
INVARIANT RefusalIsAtomic
INVARIANT EmittedLengthIsArchitectural
INVARIANT DuplicateLabelRefused
INVARIANT DryRunTracks
INVARIANT PatchedCorrect
INVARIANT FailureChangesNothing
CHECK_DEADLOCK FALSE
