SPECIFICATION Spec
CONSTANT Dev = {}
INVARIANT Report
POSTCONDITION Consumed
CHECK_DEADLOCK FALSE
