SPECIFICATION Spec
CONSTANTS
  Dev = {}
  Alphabet = "labels"
  Depth = 5
  Caps = {700}
  Gen = FALSE
  WithClone = FALSE
  WithDry = FALSE
  DoExport = FALSE
CONSTRAINT Export
INVARIANT NeverOverCapacity
INVARIANT RefusalIsAtomic
INVARIANT EmittedLengthIsArchitectural
INVARIANT DuplicateLabelRefused
INVARIANT PatchedCorrect
INVARIANT FailureChangesNothing
CHECK_DEADLOCK FALSE
