SPECIFICATION Spec
CONSTANTS
  N = 3
  OpsPer = 3
  DoExport = TRUE
INVARIANT Independence
PROPERTY NonInterference
PROPERTY SharedReadOnly
CONSTRAINT Export
CHECK_DEADLOCK FALSE
