------------------------------- MODULE MemMap -------------------------------
(***************************************************************************)
(* Cartridge address mappers of alttpo/snes (mapping/{lorom,hirom,exhirom, *)
(* sa1rom}) and the memory map that emulator.System.CreateEmulator builds. *)
(*                                                                         *)
(* The bus->pak direction is a transcription of each mapper's DOCUMENTED   *)
(* region table (bank range x offset range -> class, linear formula; see   *)
(* DESIGN.md appendix C).  The pak->bus direction is NOT fixed by the      *)
(* properties: C04 is stated over an arbitrary function P2B.  RefP2B is    *)
(* only the canonical choice used to show the predicates are satisfiable.  *)
(*                                                                         *)
(* Properties C04, C05, C11.                                               *)
(***************************************************************************)
EXTENDS Integers, Sequences, FiniteSets, TLC

CONSTANT Dev            \* set of named deviations (strings); {} = property-true design

Mappers   == <<"lorom", "hirom", "exhirom", "sa1rom">>
PageSize  == 8192
NPages    == 2048
Unmapped  == -1

ROMBase   == 0
SRAMBase  == 14680064        \* $E00000
HoleLo    == 15728640        \* $F00000  (unassigned window $F00000-$F4FFFF)
WRAMBase  == 16056320        \* $F50000
WRAMEnd   == 16187392        \* $F70000  (exclusive end of the 128 KiB WRAM window)
Top       == 16777216        \* 2^24

Bank(a)   == a \div 65536
Off(a)    == a % 65536
HalfLin(b, o) == b * 32768 + (o % 32768)     \* util.BankToLinear on an already masked bank

Class(p)  == IF p = Unmapped THEN "none"
             ELSE IF p < SRAMBase THEN "ROM"
             ELSE IF p < HoleLo THEN "SRAM"
             ELSE IF p >= WRAMBase /\ p < WRAMEnd THEN "WRAM"
             ELSE "bad"
\* Class of a pak address as an INPUT of pak->bus (mirrors $F7..$FF count as WRAM copies)
InClass(p) == IF p < SRAMBase THEN "ROM" ELSE IF p < HoleLo THEN "SRAM"
              ELSE IF p >= WRAMBase THEN "WRAM" ELSE "hole"

SysBanks(b) == b \in 0..63 \/ b \in 128..191       \* $00-$3F, $80-$BF

-----------------------------------------------------------------------------
(* bus -> pak, one operator per mapper, written region by region *)

LoROM(a) ==
  LET b == Bank(a)  o == Off(a)
      rom == HalfLin(b % 64, o)
  IN CASE b \in 0..111 \/ b \in 128..239 ->            \* $00-$6F, $80-$EF
            IF o >= 32768 THEN rom
            ELSE IF o < 8192 THEN WRAMBase + o ELSE Unmapped
       [] b \in 112..125 ->                              \* $70-$7D
            IF o >= 32768 THEN rom ELSE SRAMBase + HalfLin(b - 112, o)
       [] b \in 126..127 -> WRAMBase + (a - 8257536)     \* $7E-$7F
       [] b \in 240..255 ->                              \* $F0-$FF
            IF o >= 32768 THEN rom ELSE SRAMBase + HalfLin(b - 240, o)

HiLike(a, area2, low2) ==      \* HiROM / ExHiROM share the shape; they differ in two ROM offsets
  LET b == Bank(a)  o == Off(a)
      half(base) == base + HalfLin(b % 64, o)
      sram == SRAMBase + ((b % 32) * 8192) + (o % 8192)
  IN CASE b \in 192..255 -> a % 4194304                  \* $C0-$FF full banks
       [] b \in 64..125  -> area2 + (a % 4194304)        \* $40-$7D full banks
       [] b \in 126..127 -> WRAMBase + (a - 8257536)
       [] b \in 128..191 ->                              \* $80-$BF
            IF o >= 32768 THEN half(0)
            ELSE IF o >= 24576 /\ b >= 160 THEN sram      \* $A0-$BF:6000-7FFF
            ELSE IF o < 8192 THEN WRAMBase + o ELSE Unmapped
       [] b \in 0..63 ->                                 \* $00-$3F
            IF o >= 32768 THEN half(low2)
            ELSE IF o >= 24576 /\ b >= 32 /\ low2 = 0 THEN sram   \* HiROM only: $20-$3F:6000-7FFF
            ELSE IF o < 8192 THEN WRAMBase + o ELSE Unmapped

HiROM(a)   == HiLike(a, 0, 0)
ExHiROM(a) == HiLike(a, 4194304, 4194304)

SA1(a) ==
  LET b == Bank(a)  o == Off(a)
      low(rb) == IF o >= 32768 THEN rb * 32768 + (o % 32768)
                 ELSE IF o >= 24576 THEN SRAMBase + (o - 24576)
                 ELSE IF o < 8192 THEN WRAMBase + o ELSE Unmapped
  IN CASE b \in 192..255 -> (b - 192) * 65536 + o
       [] b \in 128..191 -> low(b - 128 + 64)
       [] b \in 126..127 -> WRAMBase + (a - 8257536)
       [] b \in 80..125  -> Unmapped
       [] b \in 68..79   -> SRAMBase + (a % 8192)
       [] b \in 64..67   -> SRAMBase + (b - 64) * 65536 + o
       [] b \in 0..63    -> low(b)

B2P(m, a) == CASE m = "lorom" -> LoROM(a) [] m = "hirom" -> HiROM(a)
               [] m = "exhirom" -> ExHiROM(a) [] m = "sa1rom" -> SA1(a)

-----------------------------------------------------------------------------
(* canonical pak -> bus (one of many right inverses); deviation "lorom_sram_70" is the   *)
(* repository's original LoROM choice that sends SRAM banks $E/$F into WRAM ($7E/$7F).  *)

RefP2B(m, p) ==
  IF InClass(p) = "hole" THEN Unmapped
  ELSE IF InClass(p) = "WRAM" THEN 8257536 + ((p - WRAMBase) % 131072)
  ELSE IF m = "lorom" THEN
     IF InClass(p) = "SRAM"
     THEN LET r == (p - SRAMBase) % 524288
              first == IF "lorom_sram_70" \in Dev /\ p < 15597568 THEN 112 ELSE 240
          IN (first + r \div 32768) * 65536 + (r % 32768)
     ELSE LET r == p % 4194304 IN (128 + r \div 32768) * 65536 + 32768 + (r % 32768)
  ELSE IF m = "hirom" THEN
     IF InClass(p) = "SRAM"
     THEN LET r == p - SRAMBase IN (160 + ((r \div 8192) % 32)) * 65536 + 24576 + (r % 8192)
     ELSE 12582912 + (p % 4194304)
  ELSE IF m = "exhirom" THEN
     IF InClass(p) = "SRAM"
     THEN LET r == p - SRAMBase IN (160 + ((r \div 8192) % 32)) * 65536 + 24576 + (r % 8192)
     ELSE IF p >= 4194304 /\ p < 8257536 THEN 4194304 + (p % 4194304)
     ELSE IF p >= 8257536 /\ p < 8388608
          THEN LET r == p - 8257536 IN (62 + r \div 32768) * 65536 + 32768 + (r % 32768)
     ELSE IF p >= 8388608
          THEN LET r == (p - 8388608) % 4194304
                   bk == r \div 32768
               IN (IF bk >= 126 THEN bk + 128 ELSE bk) * 65536 + 32768 + (r % 32768)
     ELSE 12582912 + (p % 4194304)
  ELSE \* sa1rom
     IF InClass(p) = "SRAM"
     THEN LET r == p - SRAMBase IN (64 + ((r \div 65536) % 4)) * 65536 + (r % 65536)
     ELSE LET r == p % 4194304
              bk == r \div 32768
          IN (IF bk >= 64 THEN 128 + (bk - 64) ELSE bk) * 65536 + 32768 + (r % 32768)

-----------------------------------------------------------------------------
(* C04 / C05 predicates, stated for ARBITRARY functions b2p, p2b : address -> address|Unmapped *)

RightInverseAt(b2p(_), p2b(_), a) ==
  LET p == b2p(a) IN
  p # Unmapped => LET a2 == p2b(p) IN a2 # Unmapped /\ b2p(a2) = p

CollapseAt(b2p(_), p2b(_), p) ==
  LET a == p2b(p) IN
  a # Unmapped => LET q == b2p(a) IN
                  /\ q # Unmapped
                  /\ Class(q) = InClass(p)
                  /\ q % PageSize = p % PageSize

AcceptsExactly(p2b(_), p) == (p2b(p) = Unmapped) <=> (p >= HoleLo /\ p < WRAMBase)

WellFormedAt(m, b2p(_), a) ==
  LET p == b2p(a)  b == Bank(a)  o == Off(a) IN
  /\ p = Unmapped \/ Class(p) \in {"ROM", "SRAM", "WRAM"}
  /\ b \in 126..127 => p = WRAMBase + (a - 8257536)
  /\ (SysBanks(b) /\ o < 8192) => p = WRAMBase + o
  /\ (SysBanks(b) /\ o >= 8192 /\ o < 24576) => p = Unmapped

PageLinearAt(f(_), pg, k) ==       \* inside a page the function is "unmapped everywhere" or base+offset
  LET base == f(pg * PageSize) IN
  IF base = Unmapped THEN f(pg * PageSize + k) = Unmapped
  ELSE f(pg * PageSize + k) = base + k

-----------------------------------------------------------------------------
(* emulator.System.CreateEmulator: the attach list, in order; Bus semantics = last attach wins *)

SysClasses == <<"none", "ROM", "SRAM", "WRAM", "HWIO">>
SRAMBanks  == 2          \* len(System.SRAM) >> 15

\* each entry: predicate on (bank, offset) and the cell it designates
SysAttach(a) ==
  LET b == Bank(a)  o == Off(a) IN
  << [hit |-> SysBanks(b) /\ o >= 32768,
      cls |-> "ROM",  cell |-> HalfLin(b % 128, o)],                         \* ROM + mirror at $80
     [hit |-> (b \in 112..(112 + SRAMBanks - 1) \/ b \in 240..(240 + SRAMBanks - 1)) /\ o < 32768,
      cls |-> "SRAM", cell |-> HalfLin(b % 16, o)],                          \* SRAM $70+ and $F0+
     [hit |-> b \in 126..127,
      cls |-> "WRAM", cell |-> a - 8257536],
     [hit |-> SysBanks(b) /\ o < 8192,
      cls |-> "WRAM", cell |-> o],
     [hit |-> (b \in 0..111 \/ b \in 128..239) /\ o >= 8192 /\ o < 32768,
      cls |-> "HWIO", cell |-> o - 8192] >>

SysMap(a) ==
  LET att  == SysAttach(a)
      hits == { i \in 1..Len(att) : att[i].hit }
  IN IF hits = {} THEN [cls |-> "none", cell |-> 0]
     ELSE LET i == CHOOSE i \in hits : \A j \in hits : j <= i        \* last attach wins
          IN [cls |-> att[i].cls, cell |-> att[i].cell]

ClassBase(c) == CASE c = "ROM" -> ROMBase [] c = "SRAM" -> SRAMBase [] c = "WRAM" -> WRAMBase

\* C11 for arbitrary system map sys(_) and mapper function b2p(_)
AgreeAt(sys(_), b2p(_), a) ==
  LET s == sys(a)  p == b2p(a) IN
  \* "never backs an address with a different memory class than the mapper assigns": an address the
  \* mapper translates must be backed by that class (same cell) or not be backed at all
  (s.cls # "none" /\ p # Unmapped) =>
      /\ Class(p) = s.cls
      /\ p - ClassBase(s.cls) = s.cell
=============================================================================
