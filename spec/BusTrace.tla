------------------------------- MODULE BusTrace -------------------------------
(* Validates Attach/EaRead/EaWrite/EaDump histories recorded from the REAL bus.Bus (24-bit     *)
(* addresses, instrumented memories) against Bus.tla.  "newbus" starts a fresh bus.            *)
(* The specification state (attach log, bytes written) follows the real history; a line joins  *)
(* `bad` when the real outcome differs from what Bus.tla prescribes.                           *)
EXTENDS Bus, Json
Trace == ndJsonDeserialize("bus.ndjson")
VARIABLES l, bad, log, mv
vars == <<l, bad, log, mv>>

Route(a) == RouteLog(log, a)

\* memories 1..4 are instrumented doubles (they report what they received: `seen`); 5 is the library's memory.RAM and
\* 6 its *memory.ROM over private arrays (observed through the values read and the array bytes a write changed: `landed`);
\* a ROM ignores writes
Instr(m) == m \in 1..4
\* a write of the value the cell already holds changes no array byte
LandedOK(e, m) == IF MemVal(mv, m, e.a) = e.v THEN e.landed = <<>> ELSE e.landed = << <<m, e.a, e.v>> >>
Ok(e) ==
  CASE e.k = "attach" -> e.err = ~Aligned(e.s, e.e)
    [] e.k = "read"   -> IF Route(e.a) = Nil THEN e.panic
                         ELSE ~e.panic /\ e.v = MemVal(mv, Route(e.a), e.a)
                              /\ e.seen = (IF Instr(Route(e.a)) THEN << <<Route(e.a), e.a>> >> ELSE <<>>)
    [] e.k = "write"  -> IF Route(e.a) = Nil THEN e.panic
                         ELSE /\ ~e.panic
                              /\ e.seen = (IF Instr(Route(e.a)) THEN << <<Route(e.a), e.a, e.v>> >> ELSE <<>>)
                              /\ (IF Route(e.a) = 5 THEN LandedOK(e, 5) ELSE e.landed = <<>>)
    [] e.k = "read24" -> LET a(i) == e.bank * 65536 + ((e.addr + i) % 65536) IN      \* three bytes, wrapping inside the bank
                         IF \E i \in 0..2 : Route(a(i)) = Nil THEN e.panic
                         ELSE /\ ~e.panic
                              /\ e.seen = SelectSeq([i \in 1..3 |-> <<Route(a(i - 1)), a(i - 1)>>], LAMBDA x : Instr(x[1]))
                              /\ e.v = << MemVal(mv, Route(a(0)), a(0)) + 256 * MemVal(mv, Route(a(1)), a(1)), MemVal(mv, Route(a(2)), a(2)) >>
    [] e.k = "dump"   -> ~e.panic /\ e.n = DumpCount(e.s, e.e) /\ e.data = DumpPointwise(Route, mv, e.s, e.e)
    \* a dump of more than 64 KiB is compared by the harness with byte-wise reads of the real bus (the C13 statement
    \* itself); the specification fixes the count
    [] e.k = "bigdump" -> ~e.panic /\ e.n = DumpCount(e.s, e.e) /\ e.mism = 0
    [] OTHER -> TRUE

Init == l = 1 /\ bad = {} /\ log = <<>> /\ mv = <<>>
Next == /\ l <= Len(Trace)
        /\ LET e == Trace[l] IN
           /\ bad' = IF Ok(e) THEN bad ELSE bad \cup {l}
           /\ l' = l + 1
           /\ log' = CASE e.k = "newbus" -> <<>>
                       [] e.k = "attach" /\ ~e.err -> Append(log, [m |-> e.m, s |-> e.s, e |-> e.e])
                       [] OTHER -> log
           /\ mv' = CASE e.k = "newbus" -> <<>>
                      [] e.k = "write" /\ Route(e.a) \in 1..5 -> MemPut(mv, Route(e.a), e.a, e.v)      \* (6 = ROM: writes are ignored)
                      [] OTHER -> mv
Spec == Init /\ [][Next]_vars
Report == l = Len(Trace) + 1 => \A i \in bad : PrintT(<<"BAD", ToJson([line |-> i, ev |-> Trace[i]])>>)
Consumed == TLCGet("stats").diameter - 1 = Len(Trace)
=============================================================================
