------------------------------- MODULE BusTrace -------------------------------
(* Validates Attach/EaRead/EaWrite/EaDump histories recorded from the REAL bus.Bus (24-bit     *)
(* addresses, instrumented memories) against Bus.tla.  "newbus" starts a fresh bus.            *)
(* The specification state (attach log, bytes written) follows the real history; a line joins  *)
(* `bad` when the real outcome differs from what Bus.tla prescribes.                           *)
EXTENDS Bus, Json
Trace == ndJsonDeserialize("bus.ndjson")
VARIABLES l, bad, log, mv
vars == <<l, bad, log, mv>>

Route(a) == RouteLog(log, a)

Ok(e) ==
  CASE e.k = "attach" -> e.err = ~Aligned(e.s, e.e)
    [] e.k = "read"   -> IF Route(e.a) = Nil THEN e.panic
                         ELSE ~e.panic /\ e.seen = << <<Route(e.a), e.a>> >> /\ e.v = MemVal(mv, Route(e.a), e.a)
    [] e.k = "write"  -> IF Route(e.a) = Nil THEN e.panic
                         ELSE ~e.panic /\ e.seen = << <<Route(e.a), e.a, e.v>> >>
    [] e.k = "read24" -> LET a(i) == e.bank * 65536 + ((e.addr + i) % 65536) IN      \* three bytes, wrapping inside the bank
                         IF \E i \in 0..2 : Route(a(i)) = Nil THEN e.panic
                         ELSE /\ ~e.panic
                              /\ e.seen = [i \in 1..3 |-> <<Route(a(i - 1)), a(i - 1)>>]
                              /\ e.v = << MemVal(mv, Route(a(0)), a(0)) + 256 * MemVal(mv, Route(a(1)), a(1)), MemVal(mv, Route(a(2)), a(2)) >>
    [] e.k = "dump"   -> ~e.panic /\ e.n = DumpCount(e.s, e.e) /\ e.data = DumpPointwise(Route, mv, e.s, e.e)
    [] OTHER -> TRUE

Init == l = 1 /\ bad = {} /\ log = <<>> /\ mv = <<>>
Next == /\ l <= Len(Trace)
        /\ LET e == Trace[l] IN
           /\ bad' = IF Ok(e) THEN bad ELSE bad \cup {l}
           /\ l' = l + 1
           /\ log' = CASE e.k = "newbus" -> <<>>
                       [] e.k = "attach" /\ ~e.err -> Append(log, [m |-> e.m, s |-> e.s, e |-> e.e])
                       [] OTHER -> log
           /\ mv' = CASE e.k = "newbus" -> <<>>
                      [] e.k = "write" /\ ~e.panic /\ Len(e.seen) = 1 -> MemPut(mv, e.seen[1][1], e.seen[1][2], e.seen[1][3])
                      [] OTHER -> mv
Spec == Init /\ [][Next]_vars
Report == l = Len(Trace) + 1 => \A i \in bad : PrintT(<<"BAD", ToJson([line |-> i, ev |-> Trace[i]])>>)
Consumed == TLCGet("stats").diameter - 1 = Len(Trace)
=============================================================================
