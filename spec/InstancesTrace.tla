---------------------------- MODULE InstancesTrace ----------------------------
(* Observations recorded from REAL objects: {k:"obs", run, kind, inst, seq, solo, got} where `got` is  *)
(* the digest of instance `inst` after its seq-th operation inside an interleaved or concurrent run    *)
(* and `solo` the digest after the same operation when the instance ran alone.  Independence of        *)
(* Instances.tla demands got = solo for every observation.  {k:"race", n} reports data races seen by   *)
(* the Go race detector in the free-running part (must be 0).                                          *)
EXTENDS Integers, Sequences, FiniteSets, TLC, Json
Trace == ndJsonDeserialize("inst.ndjson")
VARIABLES l, bad
vars == <<l, bad>>
Ok(e) == CASE e.k = "obs"  -> e.got = e.solo
           [] e.k = "race" -> e.n = 0
           [] OTHER -> TRUE
Init == l = 1 /\ bad = {}
Next == /\ l <= Len(Trace) /\ l' = l + 1
        /\ bad' = IF Ok(Trace[l]) THEN bad ELSE bad \cup {l}
Spec == Init /\ [][Next]_vars
Report == l = Len(Trace) + 1 => \A i \in bad : PrintT(<<"BAD", ToJson([line |-> i, ev |-> Trace[i]])>>)
Consumed == TLCGet("stats").diameter - 1 = Len(Trace)
=============================================================================
