SPECIFICATION Spec
CONSTANTS
  Depth = 3
  DoExport = FALSE
INVARIANT TypeOK
INVARIANT MemOK
CONSTRAINT Export
CHECK_DEADLOCK FALSE
