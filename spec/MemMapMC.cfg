SPECIFICATION Spec
CONSTANT Dev = {}
CONSTANT Offsets = {0, 1, 4095, 4096, 8190, 8191}
INVARIANT SpecPageLinear
INVARIANT SpecWellFormed
INVARIANT SpecRightInverse
INVARIANT SpecCollapse
INVARIANT SpecAccepts
INVARIANT SpecPageAligned
INVARIANT SpecRange
INVARIANT SpecSysAgree
CHECK_DEADLOCK FALSE
