SPECIFICATION Spec
CONSTANTS
  NCorners = 60
  DoExport = FALSE
  Emu = FALSE
INVARIANT AllOK
CONSTRAINT Export
CHECK_DEADLOCK FALSE
