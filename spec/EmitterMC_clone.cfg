SPECIFICATION Spec
CONSTANTS
  Dev = {}
  Alphabet = "cap"
  Depth = 4
  Caps = {5, 64}
  Gen = TRUE
  WithClone = TRUE
  WithDry = FALSE
  DoExport = FALSE
CONSTRAINT Export
INVARIANT NeverOverCapacity
INVARIANT RefusalIsAtomic
INVARIANT EmittedLengthIsArchitectural
INVARIANT DuplicateLabelRefused
INVARIANT CloneAppendEquivalent
INVARIANT OriginalUntouchedWhileCloned
INVARIANT RefusedAppendIsAtomic
CHECK_DEADLOCK FALSE
