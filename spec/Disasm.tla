-------------------------------- MODULE Disasm --------------------------------
(***************************************************************************)
(* Content of one execution-trace line as a function of the processor      *)
(* state and memory (C14): bank and address of the instruction about to    *)
(* execute, exactly the bytes it occupies under the current M/X widths,    *)
(* its mnemonic, the rendering of its addressing mode (compared after      *)
(* normalisation: lower case, no blanks), the destination of relative      *)
(* branches, and the A/X/Y and flag values the instruction will see.       *)
(***************************************************************************)
EXTENDS Cpu65816

Hex1 == <<"0", "1", "2", "3", "4", "5", "6", "7", "8", "9", "a", "b", "c", "d", "e", "f">>
H2(v) == Hex1[((v \div 16) % 16) + 1] \o Hex1[(v % 16) + 1]
H4(v) == H2(v \div 256) \o H2(v % 256)

RegStr(v, eight) == IF eight THEN "--" \o H2(v % 256) ELSE H4(v)
FlagsStr(p) == (IF Bit(p, FN) = 1 THEN "n" ELSE "-") \o (IF Bit(p, FV) = 1 THEN "v" ELSE "-")
            \o (IF Bit(p, FM) = 1 THEN "m" ELSE "-") \o (IF Bit(p, FX) = 1 THEN "x" ELSE "-")
            \o (IF Bit(p, FD) = 1 THEN "d" ELSE "-") \o (IF Bit(p, FI) = 1 THEN "i" ELSE "-")
            \o (IF Bit(p, FZ) = 1 THEN "z" ELSE "-") \o (IF Bit(p, FC) = 1 THEN "c" ELSE "-")

ArgStr(mode, o1, o2, o3, m8, x8, pc) ==
  LET w16 == H2(o2) \o H2(o1)
      w24 == H2(o3) \o H2(o2) \o H2(o1)
  IN CASE mode = "imp"  -> ""
       [] mode = "acc"  -> "a"
       [] mode = "imm8" -> "#$" \o H2(o1)
       [] mode = "imm16" -> "#$" \o w16
       [] mode = "immM" -> IF m8 THEN "#$" \o H2(o1) ELSE "#$" \o w16
       [] mode = "immX" -> IF x8 THEN "#$" \o H2(o1) ELSE "#$" \o w16
       [] mode = "dp"   -> "$" \o H2(o1)
       [] mode = "dpx"  -> "$" \o H2(o1) \o ",x"
       [] mode = "dpy"  -> "$" \o H2(o1) \o ",y"
       [] mode = "idp"  -> "($" \o H2(o1) \o ")"
       [] mode = "idx"  -> "($" \o H2(o1) \o ",x)"
       [] mode = "idy"  -> "($" \o H2(o1) \o "),y"
       [] mode = "idl"  -> "[$" \o H2(o1) \o "]"
       [] mode = "idly" -> "[$" \o H2(o1) \o "],y"
       [] mode = "abs"  -> "$" \o w16
       [] mode = "abx"  -> "$" \o w16 \o ",x"
       [] mode = "aby"  -> "$" \o w16 \o ",y"
       [] mode = "abl"  -> "$" \o w24
       [] mode = "alx"  -> "$" \o w24 \o ",x"
       [] mode = "ind"  -> "($" \o w16 \o ")"
       [] mode = "iax"  -> "($" \o w16 \o ",x)"
       [] mode = "ial"  -> "[$" \o w16 \o "]"
       [] mode = "sr"   -> "$" \o H2(o1) \o ",s"
       [] mode = "sry"  -> "($" \o H2(o1) \o ",s),y"
       [] mode = "bm"   -> "#$" \o H2(o2) \o ",#$" \o H2(o1)            \* source bank, destination bank
       [] mode = "rel"  -> "$" \o H2(o1) \o "($" \o H4(W16(pc + 2 + (IF o1 < 128 THEN o1 ELSE o1 - 256) + 65536))
                           \o (IF o1 < 128 THEN "+)" ELSE "-)")
       [] mode = "rell" -> "$" \o H4(W16(pc + 3 + o1 + 256 * o2))

A(cond, name) == IF cond THEN {} ELSE {name}

\* ln = parsed line {ok, bank, addr, bytes, mn, arg, A, X, Y, flags}
LineWhy(Rd(_), s, ln, name) ==
  IF ~ln.ok THEN {name \o "_line_unparsed"}
  ELSE
  LET op == Rd(At(s.K, s.PC))
      ins == Op(op)
      m8 == Bit(s.P, FM) = 1
      x8 == Bit(s.P, FX) = 1
      len == InstrLen(op, Bit(s.P, FM), Bit(s.P, FX))
      mem(n) == [i \in 1..n |-> Rd(At(s.K, W16(s.PC + i - 1)))]
      o1 == Rd(At(s.K, W16(s.PC + 1)))
      o2 == Rd(At(s.K, W16(s.PC + 2)))
      o3 == Rd(At(s.K, W16(s.PC + 3)))
  IN A(ln.bank = s.K /\ ln.addr = s.PC, name \o "_line_loc")
     \cup A(ln.bytes = mem(len) \/ (ins.mn = "brk" /\ ln.bytes = mem(2)), name \o "_line_bytes")   \* BRK: with or without signature byte
     \cup A(ln.mn = ins.mn, name \o "_line_mn")
     \cup A(ln.arg = ArgStr(ins.mode, o1, o2, o3, m8, x8, s.PC), name \o "_line_arg")
     \cup A(ln.A = RegStr(s.C, m8) /\ ln.X = RegStr(s.X, x8) /\ ln.Y = RegStr(s.Y, x8), name \o "_line_regs")
     \cup A(ln.flags = FlagsStr(s.P), name \o "_line_flags")
=============================================================================
