SPECIFICATION Spec
CONSTANTS
  Dev = {}
  Alphabet = "listing"
  Depth = 4
  Caps = {200}
  Gen = TRUE
  WithClone = FALSE
  WithDry = FALSE
  DoExport = FALSE
CONSTRAINT Export
INVARIANT NeverOverCapacity
INVARIANT RefusalIsAtomic
INVARIANT EmittedLengthIsArchitectural
INVARIANT DuplicateLabelRefused
INVARIANT ListingComplete
INVARIANT ListingAddresses
INVARIANT ListingOrder
CHECK_DEADLOCK FALSE
