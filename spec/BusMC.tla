-------------------------------- MODULE BusMC --------------------------------
(* Exhaustive exploration of Bus.tla on a small address space (NBlocks 16-byte blocks).       *)
(*  BusMC_attach.cfg : all sequences of <= MaxAttach Attach calls (aligned and misaligned      *)
(*                     ranges x memories): routing table = last attach, rejected = unchanged   *)
(*  BusMC_ops.cfg    : from EVERY routing table, every Dump(s,e), Read(a), Write(a,v)          *)
EXTENDS Bus
CONSTANTS NBlocks, Mems, MaxAttach, OpsMode
VARIABLES seg, log, mv, last, n
vars == <<seg, log, mv, last, n>>

Addrs  == 0..(NBlocks * 16 - 1)
Blocks == 0..(NBlocks - 1)
Route(a) == seg[Blk(a)]

Init == /\ IF OpsMode THEN seg \in [Blocks -> Mems \cup {Nil}] ELSE seg = [b \in Blocks |-> Nil]
        /\ log = <<>> /\ mv = <<>> /\ last = [k |-> "init"] /\ n = 0

Attach(m, s, e) ==
  /\ ~OpsMode /\ n < MaxAttach /\ n' = n + 1
  /\ IF Aligned(s, e)
     THEN /\ seg' = [b \in Blocks |-> IF b >= Blk(s) /\ b <= Blk(e) THEN m ELSE seg[b]]
          /\ log' = Append(log, [m |-> m, s |-> s, e |-> e])
          /\ last' = [k |-> "attach", err |-> FALSE, before |-> seg]
     ELSE /\ UNCHANGED <<seg, log>>
          /\ last' = [k |-> "attach", err |-> TRUE, before |-> seg]
  /\ UNCHANGED mv

Read(a) == /\ OpsMode /\ n = 0 /\ n' = 1
           /\ last' = [k |-> "read", a |-> a, loud |-> Route(a) = Nil,
                       seen |-> IF Route(a) = Nil THEN <<>> ELSE <<Route(a), a>>,
                       v |-> IF Route(a) = Nil THEN -1 ELSE MemVal(mv, Route(a), a)]
           /\ UNCHANGED <<seg, log, mv>>
Write(a, v) == /\ OpsMode /\ n = 0 /\ n' = 1
               /\ last' = [k |-> "write", a |-> a, loud |-> Route(a) = Nil]
               /\ mv' = IF Route(a) = Nil THEN mv ELSE MemPut(mv, Route(a), a, v)
               /\ UNCHANGED <<seg, log>>
Dump(s, e) == /\ OpsMode /\ n = 0 /\ n' = 1
              /\ last' = [k |-> "dump", s |-> s, e |-> e, cnt |-> DumpCount(s, e), data |-> DumpBySegment(Route, mv, s, e)]
              /\ UNCHANGED <<seg, log, mv>>

Ranges == { <<s, e>> \in Addrs \X Addrs : s <= e }
AttachRanges == { r \in Ranges : Aligned(r[1], r[2]) \/ r[1] \in {8, 15, 17} \/ r[2] \in {7, 16, 30} }

Next == \/ \E m \in Mems, r \in AttachRanges : Attach(m, r[1], r[2])
        \/ \E a \in Addrs : Read(a) \/ Write(a, 77)
        \/ \E r \in Ranges : Dump(r[1], r[2])
Spec == Init /\ [][Next]_vars

RoutingIsLastAttach == ~OpsMode => \A a \in Addrs : Route(a) = RouteLog(log, a)
RejectedAttachChangesNothing == (last.k = "attach" /\ last.err) => seg = last.before
AttachOnlyInsideRange == (last.k = "attach" /\ ~last.err) =>
                            \A b \in Blocks : seg[b] # last.before[b] => \E i \in {Len(log)} : b >= Blk(log[i].s) /\ b <= Blk(log[i].e)
DumpIsPointwise == last.k = "dump" => /\ last.data = DumpPointwise(Route, mv, last.s, last.e)
                                      /\ last.cnt = Len(last.data)
ReadGetsFullAddress == last.k = "read" => (last.loud <=> Route(last.a) = Nil) /\ (~last.loud => last.seen[2] = last.a)
WriteLandsInRoutedMemory == last.k = "write" => (~last.loud => MemVal(mv, Route(last.a), last.a) = 77)
=============================================================================
