------------------------------- MODULE CpuTrace -------------------------------
(***************************************************************************)
(* Judges single Step() events recorded from BOTH real interpreters (vh    *)
(* cpu record) against Cpu65816.tla and against each other.                *)
(*   C01  each interpreter vs the WDC model (native mode events)           *)
(*   C02  the two interpreters vs each other (state, writes, cycles, stop) *)
(*   C08  no runtime failure (every access below 2^24 on both)             *)
(*   C12  cycles >= 1, running total += cycles, stop reporting             *)
(* Events are self-contained (memory = Fill(seed) overridden by ov), so    *)
(* the accumulating style applies: every line is judged, and `why` maps a  *)
(* bad line to the set of aspects that disagree.  An aspect               *)
(* "<cpu>_known_<dev>" means: not the WDC model, but exactly what the      *)
(* named known deviation predicts (reported as KNOWN-FINDING).             *)
(***************************************************************************)
EXTENDS Disasm, Json

Trace == ndJsonDeserialize("cpu.ndjson")
KnownDevs == {"dec_bcd"}

VARIABLES l, bad, why
vars == <<l, bad, why>>

Fill(seed, a) == ((a * 31) + ((a \div 256) * 17) + ((a \div 65536) * 7) + seed) % 256
OvFn(e) == [a \in { e.ov[i][1] : i \in 1..Len(e.ov) } |->
              LET i == CHOOSE i \in 1..Len(e.ov) : e.ov[i][1] = a IN e.ov[i][2]]

ModelWhy(e, side, name) ==
  LET ov == OvFn(e)
      Rd(a) == IF a \in DOMAIN ov THEN ov[a] ELSE Fill(e.seed, a)
      r0 == Step(Rd, e.pre, {})
  IN IF side.panic THEN {name \o "_panic"}
     ELSE IF Matches(r0, side.post, side.wr) THEN {}
     ELSE IF \E d \in KnownDevs : Matches(Step(Rd, e.pre, {d}), side.post, side.wr)
          THEN {name \o "_known_" \o (CHOOSE d \in KnownDevs : Matches(Step(Rd, e.pre, {d}), side.post, side.wr))}
          ELSE {name \o "_model"}

\* emulation-mode steps and steps that dispatch an IRQ: compared with the AS-IMPLEMENTED model of Cpu65816.tla; these
\* aspects ("*_emu_model", "*_irq_model") belong to no listed property and are reported as notes by the driver
EmuWhy(e, side, name) ==
  LET ov == OvFn(e)
      Rd(a) == IF a \in DOMAIN ov THEN ov[a] ELSE Fill(e.seed, a)
  IN IF side.panic THEN {name \o "_panic"}
     ELSE IF Matches(Step(Rd, e.pre, {}), side.post, side.wr) THEN {} ELSE {name \o "_emu_model"}
IrqWhy(e, side, name) ==
  LET ov == OvFn(e)
      Rd(a) == IF a \in DOMAIN ov THEN ov[a] ELSE Fill(e.seed, a)
  IN IF side.panic THEN {}
     ELSE IF Matches(StepIrq(Rd, e.pre, {}), side.post, side.wr) THEN {} ELSE {name \o "_irq_model"}

AcctWhy(e, side, name) ==
  IF side.panic THEN {}
  ELSE A(side.cyc >= 1, name \o "_cyc0")
       \cup A(side.all1 = side.all0 + side.cyc, name \o "_acct")
       \cup A(side.ret = side.stopped, name \o "_stopret")
       \cup A(side.stopped = (side.post.stp = 1), name \o "_stopflag")
       \cup A(e.pre.stp = 1 => side.stopped, name \o "_stoplost")          \* stopped until reset, whatever happens meanwhile
       \cup (LET ov == OvFn(e)
                 Rd(a) == IF a \in DOMAIN ov THEN ov[a] ELSE Fill(e.seed, a)
                 isWdm == ~e.irq /\ Rd(At(e.pre.K, e.pre.PC)) = 66
             IN A(side.wdm = (IF isWdm THEN <<Rd(At(e.pre.K, W16(e.pre.PC + 1)))>> ELSE <<>>), name \o "_wdmcb"))

EquivWhy(e) ==
  A(e.pri.panic = e.alt.panic, "equiv_panic")
  \cup (IF e.pri.panic \/ e.alt.panic THEN {}
        ELSE A(e.pri.post = e.alt.post, "equiv_state")
             \cup A(WrMap(e.pri.wr) = WrMap(e.alt.wr), "equiv_mem")
             \cup A(e.pri.cyc = e.alt.cyc /\ e.pri.all1 = e.alt.all1, "equiv_cycles")
             \cup A(e.pri.ret = e.alt.ret /\ e.pri.stopped = e.alt.stopped, "equiv_stop"))

\* stop status per the model: STP executed (post.stp) -- an interpreter that was stopped stays stopped
Why(e) ==
  (IF e.irq THEN IrqWhy(e, e.pri, "pri") \cup IrqWhy(e, e.alt, "alt")
   ELSE IF e.pre.E = 0 THEN ModelWhy(e, e.pri, "pri") \cup ModelWhy(e, e.alt, "alt")
   ELSE EmuWhy(e, e.pri, "pri") \cup EmuWhy(e, e.alt, "alt"))
  \cup AcctWhy(e, e.pri, "pri") \cup AcctWhy(e, e.alt, "alt")
  \cup EquivWhy(e)
  \cup (IF "line" \in DOMAIN e
        THEN LET ov == OvFn(e)
                 Rd(a) == IF a \in DOMAIN ov THEN ov[a] ELSE Fill(e.seed, a)
             IN LineWhy(Rd, e.pre, e.line.pri, "pri") \cup LineWhy(Rd, e.pre, e.line.alt, "alt")
        ELSE {})

Init == l = 1 /\ bad = {} /\ why = <<>>
Next == /\ l <= Len(Trace)
        /\ LET w == Why(Trace[l]) IN
           /\ bad' = IF w = {} THEN bad ELSE bad \cup {l}
           /\ why' = IF w = {} THEN why ELSE [i \in DOMAIN why \cup {l} |-> IF i = l THEN w ELSE why[i]]
        /\ l' = l + 1
Spec == Init /\ [][Next]_vars

Report == l = Len(Trace) + 1 =>
            \A i \in bad : PrintT(<<"BAD", ToJson([line |-> i, why |-> why[i], ev |-> Trace[i]])>>)
Consumed == TLCGet("stats").diameter - 1 = Len(Trace)
=============================================================================
