SPECIFICATION Spec
CONSTANTS
  HalfBank = 32768
  Dev = {}
INVARIANT Report
INVARIANT Notes
POSTCONDITION Consumed
CHECK_DEADLOCK FALSE
