SPECIFICATION Spec
CONSTANTS
  HalfBank = 32768
  Dev = {}
INVARIANT Report
POSTCONDITION Consumed
CHECK_DEADLOCK FALSE
