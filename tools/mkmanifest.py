#!/usr/bin/env python3
"""Regenerates /verif/MANIFEST.json from the table below (single source for the interface file)."""
import json, os
HERE = os.path.dirname(os.path.dirname(os.path.abspath(__file__)))
props = [json.loads(l) for l in open(os.path.join(HERE, "properties.jsonl"))]

CHECKS = {
 "C04": ("TLC checks RightInverse/Collapse of MemMap.tla for all 4 mappers x 2048 pages on the specification and, as trace validation, on page tables recorded from the real functions (exact for every byte by the exhaustively checked page lemma); the statement is also evaluated directly on all 2^24 addresses.",
         "Trusted: TLC, Json module, the transcription of the region tables, the Go sweep that establishes the page lemma.",
         "TLA+ spec (MemMap.tla) + TLC exhaustive MC + TLC validation of page tables recorded from the real mappers"),
 "C05": ("TLC compares the real BusAddressToPak page tables of all 4 mappers with the documented region table of MemMap.tla (equality on all pages), checks class windows, console-owned regions and the rejection window; the Go sweep checks page linearity, error identity and zero result on all 2^24 x 8.",
         "Trusted: TLC, Json module, transcription of the documented region tables (DESIGN appendix C).",
         "TLA+ spec (MemMap.tla) + TLC exhaustive MC + TLC validation of recorded page tables"),
 "C09": ("Rom.tla (header layout, Parse/Serialize/WriteBack, version rule) is model-checked as a state machine (ReadHeader/WriteHeader/pokes/field edits) with a version-switching byte alphabet; histories recorded from real ROM objects (every event with the full image diff and all struct fields by reflection) are validated by TLC.",
         "Trusted: TLC, Json module, the transcription of the header layout; random histories sample the 2^640 header space (all four version-selector combinations forced).",
         "TLA+ spec (Rom.tla) + TLC MC of the ROM state machine + TLC trace validation of recorded real histories"),
 "C10": ("Rom.tla's reader/writer windows are model-checked exhaustively with HalfBank=8 (all open/read/write interleavings of two handles up to 6-7 operations: no write outside the window, read-back, all-or-error); histories on real ROMs with several live handles, lengths around the window end and banks >= $80 are validated by TLC with the full image diff per event.",
         "Trusted: TLC, Json module. The window end follows the code and the baseline test (last byte of a bank excluded).",
         "TLA+ spec (Rom.tla) + TLC exhaustive MC (small bank) + TLC trace validation of recorded real histories"),
 "C11": ("emulator.System is probed black-box on all 2^24 addresses for reads and writes; TLC validates the recorded system page tables against the recorded real LoROM table (Agree) and MemMap.tla's SysMap is model-checked against its LoROM table.",
         "Trusted: TLC, the probe's decoding of backing array/index (self-checked by a reproduction pass).",
         "TLA+ spec (MemMap.tla SysMap) + TLC MC + TLC validation of black-box probe tables"),
 "C17": ("Color.tla is checked exhaustively per channel (32x256x255) and per colour word; TLC exports the Scale/Luminosity tables that serve as oracle for a sweep of the real MulDiv (all 65536 colours x 256 x 255 in thorough) and validates 1e5 sampled real calls directly.",
         "Trusted: TLC integer arithmetic; divisor 0 is outside the domain.",
         "TLA+ spec (Color.tla) + TLC exhaustive MC + TLC-exported oracle tables + TLC trace validation"),
}
NA_REASON = "check under construction in this session (see DESIGN.md §10 build order)"

def chk(pid, text, note, tech):
    return {"property_id": pid, "quick_cmd": "./check %s --tier quick" % pid, "thorough_cmd": "./check %s --tier thorough" % pid,
            "evidence_file": "/verif/evidence/%s.json" % pid, "replay_cmd_template": "./check %s --replay {path}" % pid,
            "engine": "tlc", "level_claimed": {"category": "model_checking", "text": text, "design_ref": "DESIGN.md §4 " + pid},
            "level_note": note, "technique": tech}

hooks_commits = []
hc = os.path.join(HERE, "hooks_commits.txt")
if os.path.exists(hc):
    hooks_commits = [l.strip() for l in open(hc) if l.strip()]
m = {"version": 1, "setup_cmd": "./setup.sh",
     "hooks": {"guard": "verif", "enable": "go build -tags verif (harness module replaces github.com/alttpo/snes => /repo)",
               "baseline_off_cmd": "cd /repo && go test -json -vet=off -count=1 -timeout 25m ./...",
               "source_commits": hooks_commits, "add_only": True},
     "engines": [{"name": "tlc", "path": "/verif/spec", "serves_properties": sorted(CHECKS),
                  "kind_free_text": "explicit TLA+ specifications checked by TLC; Go harness /verif/harness records/replays real-code behaviour"}],
     "checks": [chk(p, *CHECKS[p]) for p in sorted(CHECKS)],
     "notes": "See DESIGN.md. Every check: ./check <ID> --tier quick|thorough; exit 0/1/2 protocol in DESIGN.md 2.3.",
     "not_applicable": [{"property_id": p["id"], "reason": NA_REASON} for p in props if p["id"] not in CHECKS]}
json.dump(m, open(os.path.join(HERE, "MANIFEST.json"), "w"), indent=1)
print("claimed:", sorted(CHECKS))
