#!/usr/bin/env python3
"""Regenerates /verif/MANIFEST.json from the table below (single source for the interface file)."""
import json, os
HERE = os.path.dirname(os.path.dirname(os.path.abspath(__file__)))
props = [json.loads(l) for l in open(os.path.join(HERE, "properties.jsonl"))]

CHECKS = {
 "C04": ("TLC checks RightInverse/Collapse of MemMap.tla for all 4 mappers x 2048 pages on the specification and, as trace validation, on page tables recorded from the real functions (exact for every byte by the exhaustively checked page lemma); the statement is also evaluated directly on all 2^24 addresses.",
         "Trusted: TLC, Json module, the transcription of the region tables, the Go sweep that establishes the page lemma.",
         "TLA+ spec (MemMap.tla) + TLC exhaustive MC + TLC validation of page tables recorded from the real mappers"),
 "C05": ("TLC compares the real BusAddressToPak page tables of all 4 mappers with the documented region table of MemMap.tla (equality on all pages), checks class windows, console-owned regions and the rejection window; the Go sweep checks page linearity, error identity and zero result on all 2^24 x 8.",
         "Trusted: TLC, Json module, transcription of the documented region tables (DESIGN appendix C).",
         "TLA+ spec (MemMap.tla) + TLC exhaustive MC + TLC validation of recorded page tables"),
 "C09": ("Rom.tla (header layout, Parse/Serialize/WriteBack, version rule) is model-checked as a state machine (ReadHeader/WriteHeader/pokes/field edits) with a version-switching byte alphabet; histories recorded from real ROM objects (every event with the full image diff and all struct fields by reflection) are validated by TLC.",
         "Trusted: TLC, Json module, the transcription of the header layout; random histories sample the 2^640 header space (all four version-selector combinations forced).",
         "TLA+ spec (Rom.tla) + TLC MC of the ROM state machine + TLC trace validation of recorded real histories"),
 "C10": ("Rom.tla's reader/writer windows are model-checked exhaustively with HalfBank=8 (all open/read/write interleavings of two handles up to 6-7 operations: no write outside the window, read-back, all-or-error); histories on real ROMs with several live handles, lengths around the window end and banks >= $80 are validated by TLC with the full image diff per event.",
         "Trusted: TLC, Json module. The window end follows the code and the baseline test (last byte of a bank excluded).",
         "TLA+ spec (Rom.tla) + TLC exhaustive MC (small bank) + TLC trace validation of recorded real histories"),
 "C11": ("emulator.System is probed black-box on all 2^24 addresses for reads and writes; TLC validates the recorded system page tables against the recorded real LoROM table (Agree) and MemMap.tla's SysMap is model-checked against its LoROM table.",
         "Trusted: TLC, the probe's decoding of backing array/index (self-checked by a reproduction pass).",
         "TLA+ spec (MemMap.tla SysMap) + TLC MC + TLC validation of black-box probe tables"),
 "C01": ("Cpu65816.tla is an explicit TLA+ transcription of the WDC native-mode programming model (all 256 opcodes, 8/16-bit widths, wrap rules); every Step of BOTH real interpreters -- opcodes cycled 0..255 from boundary-biased states with junk in the non-authoritative register copies, top-of-memory states, decimal states, lock-step chains through pseudo-random and width-switch-rich programs -- is recorded as a self-contained event and judged by TLC against Step(). Decimal ADC/SBC (repaired in /repo by c992b5c) is compared with the BCD model; an event that instead equals what the named deviation dec_bcd (the old arithmetic) predicts is reported as that defect having returned.",
         "Trusted: TLC, my transcription of the WDC model (contested corners left free: decimal V, invalid BCD, PC after WAI/STP). Sampling of the state space is seeded, not exhaustive; no TLC-exported program enumeration yet.",
         "TLA+ spec (Cpu65816.tla + ISA.tla) + TLC trace validation of recorded Step events of both real interpreters"),
 "C02": ("Every recorded event carries the outcome of both interpreters from the same state and memory; TLC checks Equiv (registers, flags, E, stop status, written memory, per-step cycles, running totals, panics) in native and emulation mode, binary and decimal, with pending IRQs, single steps and lock-step chains; where Cpu65816.tla defines the behaviour each side is also compared with the model.",
         "Trusted: TLC. Observational equivalence is judged on the architectural projection, not on the raw duplicate register fields.",
         "TLA+ trace specification (CpuTrace.tla Equiv) + TLC validation of lock-step events recorded from both real interpreters"),
 "C08": ("The whole 16 MiB bus is mapped to a flat memory; single steps from top-of-memory-biased states (DBR=$FF, long operands near $FFFFFF, all index corners, E in {0,1}) and chains are executed on both interpreters; a recovered Go panic is an event TLC rejects, and in native mode the written addresses/values must be the model's wrapped ones.",
         "Trusted: TLC; panics are the only way an address >= 2^24 can manifest (both bus tables have exactly 2^20 blocks).",
         "TLA+ spec (Cpu65816.tla wrap rules) + TLC trace validation of recorded Step events"),
 "C12": ("RunLoop.tla models System.RunUntil and is model-checked including Termination under weak fairness (depends on MinCycles >= 1); real RunUntil runs (random programs with spins, self-branches, block moves, STP, WDM; targets at/inside/outside instructions; budgets 0, 1, exact, short) are observed through OnPC callbacks on every address, a Logger and OnWDM and validated by TLC; every Step event of both interpreters (incl. pending IRQs, STP, pre-stopped CPUs) is checked for cycles >= 1, total += cycles and stop reporting.",
         "Trusted: TLC. 'cycles >= 1 for every combination' is sampled over all opcodes x widths x E x random operands/alignments, not enumerated from the cycle tables.",
         "TLA+ spec (RunLoop.tla) + TLC MC with liveness + TLC trace validation of real RunUntil runs and Step accounting events"),
 "C14": ("Disasm.tla defines the content of a trace line from Cpu65816.tla's state; the lines printed by both real disassemblers before each recorded Step (all opcodes, widths, emulation mode, bank-end PCs, chains) are parsed and judged by TLC (location, bytes, mnemonic, normalised operand rendering, branch destination, registers, flags); every RunUntil scenario is run traced and untraced from the same state and TLC requires identical finals.",
         "Trusted: TLC, the trace-line parser (regular expressions in the harness); rendering compared structurally.",
         "TLA+ spec (Disasm.tla) + TLC trace validation of parsed real trace lines + traced/untraced pair runs"),
 "C18": ("Instances.tla states NonInterference/SharedReadOnly/Independence; TLC enumerates all 1680 interleavings of 3 instances x 3 slots, which are executed deterministically on real Systems, cpualt CPUs, Emitters and ROMs (digest after every operation = digest when run alone), and 16-64 goroutines run the same instances freely with concurrent mapper/colour calls under the Go race detector; observations and race reports are validated by TLC.",
         "Trusted: TLC, Go race detector as instrumentation. Schedules are enumerated at operation granularity only.",
         "TLA+ spec (Instances.tla) + TLC enumeration of schedules replayed on real objects + TLC validation of observations under -race"),
 "C03": ("Emitter.tla's method table (written from the method names, opcodes resolved through the WDC matrix in ISA.tla) is checked by TLC (every method has an ISA opcode, emitted length = architectural length under the tracked widths) and every call recorded from the real emitter -- all 90 methods cycled with boundary/random operands under all four width states, plus random programs and TLC-exported behaviours -- is validated by TLC (bytes, Len, PC); both CPUs' disassemblers must decode each emitted instruction to the same mnemonic and length.",
         "Trusted: TLC, the WDC opcode matrix typed into tools/gen_isa.py. Operand values are sampled with boundary bias, not enumerated (2^24 operand sweep not built).",
         "TLA+ spec (Emitter.tla + ISA.tla) + TLC MC + TLC trace validation of recorded real calls + replay of TLC behaviours"),
 "C06": ("Emitter.tla models labels, dangling references and Finalize; TLC explores all call orders up to depth 5-6 over pads {1,126,127,128}, two labels, rel8/abs16 references, two bases (reaching distances -129..+128) and checks the patched operands; all maximal behaviours are replayed on the real emitter and random programs are validated by TLC with full VerifState comparison.",
         "Trusted: TLC; Finalize failures are compared as a relation (only operand bytes may change, error must name a genuinely bad reference) because Go map order is nondeterministic.",
         "TLA+ spec (Emitter.tla) + TLC exhaustive MC + replay of TLC behaviours on the real emitter + TLC trace validation"),
 "C07": ("Emitter.tla's flag tracker and ISA.tla's decoder are model-checked for all REP/SEP/AssumeREP/AssumeSEP/immediate interleavings to depth 4-5 (decoder walk = emitter instruction starts, refusal iff width mismatch); TLC behaviours and random straight-line programs are emitted by the real Emitter and executed on BOTH real CPUs, whose opcode-fetch addresses and final M/X are validated by TLC.",
         "Trusted: TLC, ISA.tla. Control transfers, PLP/RTI/STP are excluded as the property states; branches use displacement 0; program bytes are write-protected.",
         "TLA+ spec (Emitter.tla + ISA.tla) + TLC MC + replay through real Emitter and both real CPUs + TLC trace validation"),
 "C13": ("Bus.tla is model-checked exhaustively (all Attach sequences <= 3 over aligned and misaligned ranges: routing = last attach; every routing table x every Dump range/Read/Write: segment-wise dump = pointwise reads) and random histories on the real 2^20-block bus with instrumented memories are validated by TLC.",
         "Trusted: TLC; instrumented memory doubles.",
         "TLA+ spec (Bus.tla) + TLC exhaustive MC + TLC trace validation of recorded real histories"),
 "C15": ("Emitter.tla's listing model is model-checked (listed bytes = emitted bytes, line addresses, issue order) over data blocks of 0,1,15,16,17,32,33 bytes, labels, comments, base; the real WriteHexTo/WriteTextTo output is parsed and compared item by item by TLC for TLC-exported behaviours and random programs (blocks up to 130 bytes, comments up to 1000 characters, before and after Finalize).",
         "Trusted: TLC, the two small listing parsers in the harness. Domain: programs that fit; emitters with a target.",
         "TLA+ spec (Emitter.tla) + TLC exhaustive MC + replay of TLC behaviours + TLC trace validation of parsed listings"),
 "C16": ("EmitterMC holds direct/orig/clone emitters in one state and checks Obs(orig after Append) = Obs(direct) for every call sequence and split point to depth 3-4, original untouched while cloned, refused Append atomic; the real Clone/Append are driven by TLC-exported behaviours and random scenarios (including nil-target clones, tight capacities, splits at labels and before SetBase) and compared with full VerifState by TLC.",
         "Trusted: TLC. Equivalence direct vs clone route is proved on the specification; the real code is bound to the specification on both routes.",
         "TLA+ spec (Emitter.tla) + TLC exhaustive MC + replay of TLC behaviours + TLC trace validation"),
 "C19": ("EmitterMC explores every capacity 0..8 and 20 with all call sequences to depth 4-5 and a nil-target twin (n <= cap, refusals atomic, twin tracks PC/labels/flags); real emitters are run at capacities measured by a real dry-run emitter (exact, 1-3 short, random) with every call also mirrored into a real nil-target twin, validated by TLC.",
         "Trusted: TLC. REP/SEP update the tracker and EmitBytes appends listing records before the capacity check; the specification models both explicitly (outside what C19 lists as preserved).",
         "TLA+ spec (Emitter.tla) + TLC exhaustive MC + replay of TLC behaviours + TLC trace validation"),
 "C17": ("Color.tla is checked exhaustively per channel (32x256x255) and per colour word; TLC exports the Scale/Luminosity tables that serve as oracle for a sweep of the real MulDiv (all 65536 colours x 256 x 255 in thorough) and validates 1e5 sampled real calls directly.",
         "Trusted: TLC integer arithmetic; divisor 0 is outside the domain.",
         "TLA+ spec (Color.tla) + TLC exhaustive MC + TLC-exported oracle tables + TLC trace validation"),
}
NA_REASON = "check under construction in this session (see DESIGN.md §10 build order)"

def chk(pid, text, note, tech):
    return {"property_id": pid, "quick_cmd": "./check %s --tier quick" % pid, "thorough_cmd": "./check %s --tier thorough" % pid,
            "evidence_file": "/verif/evidence/%s.json" % pid, "replay_cmd_template": "./check %s --replay {path}" % pid,
            "engine": "tlc", "level_claimed": {"category": "model_checking", "text": text, "design_ref": "DESIGN.md §4 " + pid},
            "level_note": note, "technique": tech}

hooks_commits = []
hc = os.path.join(HERE, "hooks_commits.txt")
if os.path.exists(hc):
    hooks_commits = [l.strip() for l in open(hc) if l.strip()]
m = {"version": 1, "setup_cmd": "./setup.sh",
     "hooks": {"guard": "verif", "enable": "not required any more: the harness (module verif/harness, replace github.com/alttpo/snes => /repo) is built WITHOUT the tag and observes the library through its public API only; the one guarded file of commit 22f7bb3 (asm/verif_hooks.go, Emitter.VerifState, add-only) remains in /repo as an inert debugging aid",
               "baseline_off_cmd": "cd /repo && go test -json -vet=off -count=1 -timeout 25m ./...",
               "source_commits": hooks_commits, "add_only": True},
     "engines": [{"name": "tlc", "path": "/verif/spec", "serves_properties": sorted(CHECKS),
                  "kind_free_text": "explicit TLA+ specifications checked by TLC; Go harness /verif/harness records/replays real-code behaviour"}],
     "checks": [chk(p, *CHECKS[p]) for p in sorted(CHECKS)],
     "notes": "See DESIGN.md. Every check: ./check <ID> --tier quick|thorough; exit 0/1/2 protocol in DESIGN.md 2.3.",
     "not_applicable": [{"property_id": p["id"], "reason": NA_REASON} for p in props if p["id"] not in CHECKS]}
json.dump(m, open(os.path.join(HERE, "MANIFEST.json"), "w"), indent=1)
print("claimed:", sorted(CHECKS))
