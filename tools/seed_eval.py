#!/usr/bin/env python3
"""Evaluate seeded regressions produced by sub-agents.

usage: seed_eval.py <seed-dir (contains A/ B/ C/)> <PROP> [--checks C04,C05] [--tier quick]

For every variant: (1) confirm in a scratch worktree of /repo that the demo passes on the clean tree,
fails with the patch, and that the repository's stable tests still pass with the patch; (2) apply the
patch to /repo, run the registered checks, undo; (3) copy patch/demo/meta to /verif/seeded/<PROP>-<V>/
with the outcome in meta.json.
"""
import json, os, re, shutil, subprocess, sys, tempfile

ENV = dict(os.environ, GOFLAGS="-mod=mod", GOPROXY="off", GOSUMDB="off", GOTOOLCHAIN="local")


def sh(cmd, cwd=None, timeout=3600):
    p = subprocess.run(cmd, shell=True, cwd=cwd, env=ENV, stdout=subprocess.PIPE, stderr=subprocess.STDOUT, text=True, timeout=timeout)
    return p.returncode, p.stdout


def demo_info(path):
    txt = open(path).read()
    head = txt[:3000]
    m = re.search(r"go test[^\n]*", head)
    cmd = m.group(0).strip() if m else None
    m2 = re.search(r"^package\s+(\w+)", txt, re.M)
    return cmd, (m2.group(1) if m2 else None)


def find_dir_for(cmd, pkg, wt):
    # last token of the go test command is the package dir (./emulator/ or .)
    toks = cmd.split()
    for t in reversed(toks):
        if t.startswith("./") or t == ".":
            return t.rstrip("`'\"")
    return "."


def stable_tests(wt):
    rc, out = sh("go test -vet=off -count=1 ./... 2>&1 | grep -E '^(ok|FAIL|---|panic)' | sort", cwd=wt)
    out = re.sub(r"\(?\d+\.\d+s\)?", "", out)
    return out


def main():
    seed_dir, prop = sys.argv[1], sys.argv[2]
    checks = [prop]
    tier = "quick"
    args = sys.argv[3:]
    demo_dirs = {}
    while args:
        a = args.pop(0)
        if a == "--checks":
            checks = args.pop(0).split(",")
        elif a == "--tier":
            tier = args.pop(0)
        elif a == "--demo-dir":  # V=dir
            v, d = args.pop(0).split("=")
            demo_dirs[v] = d
    rc, out = sh("git -C /repo status --porcelain")
    if out.strip():
        print("refusing: /repo not clean:\n" + out)
        return 2
    wt = tempfile.mkdtemp(prefix="seedwt-")
    os.rmdir(wt)
    rc, out = sh("git -C /repo worktree add -q --detach %s HEAD" % wt)
    assert rc == 0, out
    results = []
    try:
        base_tests = stable_tests(wt)
        for v in sorted(os.listdir(seed_dir)):
            vd = os.path.join(seed_dir, v)
            patch = os.path.join(vd, "patch.diff")
            if not os.path.exists(patch):
                continue
            demos = [f for f in os.listdir(vd) if f.endswith("_test.go") or f == "demo"]
            meta = {}
            try:
                meta = json.load(open(os.path.join(vd, "meta.json")))
            except Exception as e:
                meta = {"meta_error": str(e)}
            res = {"variant": v, "property": prop}
            # --- confirm demo
            demo = os.path.join(vd, demos[0]) if demos else None
            if demo and demo.endswith("_test.go"):
                cmd, pkg = demo_info(demo)
                ddir = demo_dirs.get(v) or find_dir_for(cmd or ".", pkg, wt)
                # a demo that is its own package runs from its own directory
                os.makedirs(os.path.join(wt, ddir), exist_ok=True)
                existing = [f for f in os.listdir(os.path.join(wt, ddir)) if f.endswith(".go") and not f.endswith("_test.go")]
                expkg = None
                if existing:
                    mm = re.search(r"^package\s+(\w+)", open(os.path.join(wt, ddir, existing[0])).read(), re.M)
                    expkg = mm.group(1) if mm else None
                if pkg not in (expkg, (expkg or "") + "_test"):
                    ddir = "./zz_seeddemo_%s" % v.lower()
                    os.makedirs(os.path.join(wt, ddir), exist_ok=True)
                target = os.path.join(wt, ddir, "zz_seed_demo_%s_test.go" % v.lower())
                m = re.search(r"-run\s+'?\"?([^'\"\s]+)", cmd or "")
                runre = m.group(1) if m else "."
                shutil.copy(demo, target)
                rc1, o1 = sh("go test -vet=off -count=1 -run '%s' %s" % (runre, ddir), cwd=wt)
                rcA, oA = sh("git apply %s" % patch, cwd=wt)
                rc2, o2 = sh("go test -vet=off -count=1 -run '%s' %s" % (runre, ddir), cwd=wt)
                os.remove(target)
                with_tests = stable_tests(wt)
                sh("git checkout -- . && git clean -fdq", cwd=wt)
                res.update(demo_clean_pass=(rc1 == 0), patch_applies=(rcA == 0), demo_patched_fail=(rc2 != 0),
                           tests_unchanged=(with_tests == base_tests), demo_cmd="go test -vet=off -count=1 -run '%s' %s" % (runre, ddir))
                if with_tests != base_tests:
                    res["tests_diff"] = [l for l in with_tests.splitlines() if l not in base_tests.splitlines()][:10]
                if rc1 != 0:
                    res["demo_clean_out"] = o1[-1500:]
            else:
                res["demo"] = "not a _test.go demo; not auto-confirmed"
            # --- run our checks against the patch in /repo
            det = {}
            rcA, oA = sh("git -C /repo apply %s" % patch)
            if rcA != 0:
                res["repo_apply_error"] = oA[-500:]
            else:
                try:
                    for c in checks:
                        rc, out = sh("cd /verif && ./check %s --tier %s" % (c, tier), timeout=7200)
                        viol = [l for l in out.splitlines() if l.startswith("VIOLATION") or l.startswith("  ^")]
                        det[c] = {"rc": rc, "lines": viol[:6]}
                        if rc == 2:
                            det[c]["tail"] = out[-1500:]
                finally:
                    sh("git -C /repo checkout -- . && git -C /repo clean -fdq")
            res["checks"] = det
            res["detected"] = any(d["rc"] == 1 for d in det.values())
            results.append(res)
            # --- keep
            dst = "/verif/seeded/%s-%s" % (prop, v)
            os.makedirs(dst, exist_ok=True)
            for f in os.listdir(vd):
                s = os.path.join(vd, f)
                if os.path.isfile(s):
                    shutil.copy(s, dst)
            meta.update({"evaluation": res})
            json.dump(meta, open(os.path.join(dst, "meta.json"), "w"), indent=1)
            print(json.dumps(res, indent=1))
    finally:
        sh("git -C /repo worktree remove --force %s" % wt)
        sh("git -C /repo checkout -- . && git -C /repo clean -fdq")
    return 0


if __name__ == "__main__":
    sys.exit(main())
