#!/bin/sh
# runs every registered thorough check once on the unchanged tree; one line per run (development aid)
cd /verif
for p in "$@"; do
  t0=$(date +%s)
  timeout 14400 ./check $p --tier thorough > /tmp/thorough_$p.log 2>&1
  rc=$?
  echo "$p rc=$rc $(( $(date +%s) - t0 ))s viol=$(grep -c '^VIOLATION' /tmp/thorough_$p.log) $(grep -E 'INFRA' /tmp/thorough_$p.log | head -1 | cut -c1-200)"
done
