#!/usr/bin/env python3
"""Re-runs the registered quick checks against every kept seeded regression in /verif/seeded/<P>-<V>/ and
writes /verif/seeded/RESULTS.json (which check caught which change).  Applies each patch to /repo and undoes
it straight afterwards; must not run concurrently with other checks."""
import json, os, subprocess, sys, time
ENV = dict(os.environ, GOFLAGS="-mod=mod", GOPROXY="off", GOSUMDB="off", GOTOOLCHAIN="local")
def sh(cmd, timeout=3600):
    p = subprocess.run(cmd, shell=True, env=ENV, stdout=subprocess.PIPE, stderr=subprocess.STDOUT, text=True, timeout=timeout)
    return p.returncode, p.stdout
def main():
    only = sys.argv[1:]
    rc, out = sh("git -C /repo status --porcelain")
    if out.strip():
        print("refusing: /repo not clean"); return 2
    res = {}
    rp = "/verif/seeded/RESULTS.json"
    if os.path.exists(rp):
        res = json.load(open(rp))
    for d in sorted(os.listdir("/verif/seeded")):
        pd = os.path.join("/verif/seeded", d, "patch.diff")
        if not os.path.exists(pd):
            continue
        prop = d.split("-")[0]
        if only and prop not in only and d not in only:
            continue
        rc, out = sh("git -C /repo apply " + pd)
        if rc != 0:
            res[d] = {"property": prop, "applies": False, "note": out[-300:]}
            continue
        t0 = time.time()
        try:
            rc, out = sh("cd /verif && ./check %s --tier quick" % prop, timeout=2400)
        finally:
            sh("git -C /repo checkout -- . && git -C /repo clean -fdq")
        lines = [l for l in out.splitlines() if l.startswith("VIOLATION") or l.startswith("  ^")]
        res[d] = {"property": prop, "applies": True, "check_rc": rc, "detected": rc == 1, "wall_s": round(time.time() - t0),
                  "first": (lines[1][:300] if len(lines) > 1 else "")}
        print(d, res[d]["check_rc"], res[d]["wall_s"], flush=True)
        json.dump(res, open(rp, "w"), indent=1)
    return 0
if __name__ == "__main__":
    sys.exit(main())
