#!/bin/sh
# runs every registered quick check on the unchanged tree for the given seeds; prints one line per run
cd /verif
for s in "$@"; do
  for p in C01 C02 C03 C04 C05 C06 C07 C08 C09 C10 C11 C12 C13 C14 C15 C16 C17 C18 C19; do
    t0=$(date +%s)
    VERIF_SEED=$s timeout 3000 ./check $p --tier quick > /tmp/runall_$p.log 2>&1
    rc=$?
    echo "seed=$s $p rc=$rc $(( $(date +%s) - t0 ))s $(grep -c '^VIOLATION' /tmp/runall_$p.log) $(grep -E 'INFRA' /tmp/runall_$p.log | head -1 | cut -c1-200)"
  done
done
