#!/usr/bin/env python3
"""Evaluate property-PRESERVING changes produced by sub-agents (false-alarm campaign).

usage: benign_eval.py <dir containing P/ Q/ ...> <PROP> [--all-related]

For every variant: (1) in a scratch worktree confirm the patch applies, builds with and without the verif tag, the demo
passes clean and patched, and the repository's stable tests are unchanged; (2) apply the patch to /repo, run the quick
check of the property and of every other property anchored in a touched file, undo; expected rc = 0 everywhere.
Outcome kept under /verif/benign/<PROP>-<V>/.
"""
import json, os, re, shutil, subprocess, sys, tempfile
sys.path.insert(0, os.path.dirname(os.path.abspath(__file__)))
from seed_eval import sh, demo_info, find_dir_for, stable_tests

PROPS = [json.loads(l) for l in open("/verif/properties.jsonl")]


def related(prop, patch):
    touched = set(re.findall(r"^\+\+\+ b/(\S+)", open(patch).read(), re.M))
    out = [prop]
    for p in PROPS:
        if p["id"] != prop and touched & set(p["anchors"]["files"]):
            out.append(p["id"])
    return out, sorted(touched)


def main():
    seed_dir, prop = sys.argv[1], sys.argv[2]
    rc, out = sh("git -C /repo status --porcelain")
    if out.strip():
        print("refusing: /repo not clean:\n" + out)
        return 2
    wt = tempfile.mkdtemp(prefix="benwt-")
    os.rmdir(wt)
    rc, out = sh("git -C /repo worktree add -q --detach %s HEAD" % wt)
    assert rc == 0, out
    try:
        base_tests = stable_tests(wt)
        for v in sorted(os.listdir(seed_dir)):
            vd = os.path.join(seed_dir, v)
            patch = os.path.join(vd, "patch.diff")
            if not os.path.exists(patch):
                continue
            try:
                meta = json.load(open(os.path.join(vd, "meta.json")))
            except Exception as e:
                meta = {"meta_error": str(e)}
            res = {"variant": v, "property": prop}
            demos = [f for f in os.listdir(vd) if f.endswith("_test.go")]
            rcA, oA = sh("git apply --check %s" % patch, cwd=wt)
            res["patch_applies"] = rcA == 0
            if demos:
                demo = os.path.join(vd, demos[0])
                cmd, pkg = demo_info(demo)
                ddir = find_dir_for(cmd or ".", pkg, wt)
                os.makedirs(os.path.join(wt, ddir), exist_ok=True)
                existing = [f for f in os.listdir(os.path.join(wt, ddir)) if f.endswith(".go") and not f.endswith("_test.go")]
                expkg = None
                if existing:
                    mm = re.search(r"^package\s+(\w+)", open(os.path.join(wt, ddir, existing[0])).read(), re.M)
                    expkg = mm.group(1) if mm else None
                if pkg not in (expkg, (expkg or "") + "_test"):
                    ddir = "./zz_bendemo_%s" % v.lower()
                    os.makedirs(os.path.join(wt, ddir), exist_ok=True)
                target = os.path.join(wt, ddir, "zz_ben_demo_%s_test.go" % v.lower())
                m = re.search(r"-run\s+'?\"?([^'\"\s]+)", cmd or "")
                runre = m.group(1) if m else "."
                shutil.copy(demo, target)
                rc1, o1 = sh("go test -vet=off -count=1 -run '%s' %s" % (runre, ddir), cwd=wt)
                sh("git apply %s" % patch, cwd=wt)
                rc2, o2 = sh("go test -vet=off -count=1 -run '%s' %s" % (runre, ddir), cwd=wt)
                os.remove(target)
                rcb, ob = sh("go build ./... && go build -tags verif ./...", cwd=wt)
                with_tests = stable_tests(wt)
                sh("git checkout -- . && git clean -fdq", cwd=wt)
                res.update(demo_clean_pass=(rc1 == 0), demo_patched_pass=(rc2 == 0), builds=(rcb == 0), tests_unchanged=(with_tests == base_tests))
                if rc2 != 0:
                    res["demo_patched_out"] = o2[-800:]
            checks, touched = related(prop, patch)
            res["touched"] = touched
            det = {}
            rcA, oA = sh("git -C /repo apply %s" % patch)
            if rcA != 0:
                res["repo_apply_error"] = oA[-500:]
            else:
                try:
                    for c in checks:
                        rc, out = sh("cd /verif && ./check %s --tier quick" % c, timeout=7200)
                        viol = [l for l in out.splitlines() if l.startswith("VIOLATION") or l.startswith("  ^") or l.startswith("KNOWN-FINDING") or l.startswith("INFRA") or l.startswith("[note]")]
                        det[c] = {"rc": rc, "lines": [l[:700] for l in viol[:8]]}
                        if rc == 2:
                            det[c]["tail"] = out[-1500:]
                finally:
                    sh("git -C /repo checkout -- . && git -C /repo clean -fdq")
            res["checks"] = det
            res["quiet"] = all(d["rc"] == 0 for d in det.values())
            dst = "/verif/benign/%s-%s" % (prop, v)
            os.makedirs(dst, exist_ok=True)
            for f in os.listdir(vd):
                s = os.path.join(vd, f)
                if os.path.isfile(s):
                    shutil.copy(s, dst)
            meta.update({"evaluation": res})
            json.dump(meta, open(os.path.join(dst, "meta.json"), "w"), indent=1)
            print(json.dumps({k: res[k] for k in res if k != "checks"}), {c: d["rc"] for c, d in det.items()})
    finally:
        sh("git -C /repo worktree remove --force %s" % wt)
        sh("git -C /repo checkout -- . && git -C /repo clean -fdq")
    return 0


if __name__ == "__main__":
    sys.exit(main())
