#!/usr/bin/env python3
"""Re-runs the quick checks against every kept property-PRESERVING change in /verif/benign/<P>-<V>/ (the property's own
check and the checks of every property anchored in a touched file) and writes /verif/benign/RESULTS.json.
Expected: rc 0 everywhere (except alarms recorded as legitimate in EXPECTED below)."""
import json, os, re, subprocess, sys, time
ENV = dict(os.environ, GOFLAGS="-mod=mod", GOPROXY="off", GOSUMDB="off", GOTOOLCHAIN="local")
PROPS = [json.loads(l) for l in open("/verif/properties.jsonl")]
# C01-P changes a cycle count in ONE interpreter only: C01 holds, C02 (cycle-for-cycle equivalence) is really broken
EXPECTED = {("C01-P", "C02"): 1}
def sh(cmd, timeout=3600):
    p = subprocess.run(cmd, shell=True, env=ENV, stdout=subprocess.PIPE, stderr=subprocess.STDOUT, text=True, timeout=timeout)
    return p.returncode, p.stdout
def main():
    only = sys.argv[1:]
    rc, out = sh("git -C /repo status --porcelain")
    if out.strip():
        print("refusing: /repo not clean"); return 2
    rp = "/verif/benign/RESULTS.json"
    res = json.load(open(rp)) if os.path.exists(rp) else {}
    for d in sorted(os.listdir("/verif/benign")):
        pd = os.path.join("/verif/benign", d, "patch.diff")
        if not os.path.exists(pd) or (only and d not in only and d.split("-")[0] not in only):
            continue
        prop = d.split("-")[0]
        touched = set(re.findall(r"^\+\+\+ b/(\S+)", open(pd).read(), re.M))
        related = [p["id"] for p in PROPS if p["id"] != prop and touched & set(p["anchors"]["files"])]
        nrel = int(os.environ.get("BENIGN_RELATED", "99"))      # how many related checks besides the property's own
        checks = [prop] + related[:nrel]
        rc, out = sh("git -C /repo apply " + pd)
        if rc != 0:
            res[d] = {"applies": False, "note": out[-300:]}
            continue
        r = {}
        try:
            for c in checks:
                t0 = time.time()
                rc, out = sh("cd /verif && ./check %s --tier quick" % c, timeout=2400)
                r[c] = {"rc": rc, "expected": EXPECTED.get((d, c), 0), "wall_s": round(time.time() - t0),
                        "first": next((l[:300] for l in out.splitlines() if l.startswith("  ^") or l.startswith("INFRA")), "")}
        finally:
            sh("git -C /repo checkout -- . && git -C /repo clean -fdq")
        res[d] = {"applies": True, "checks": r, "quiet": all(v["rc"] == v["expected"] for v in r.values())}
        print(d, {c: v["rc"] for c, v in r.items()}, "OK" if res[d]["quiet"] else "UNEXPECTED", flush=True)
        json.dump(res, open(rp, "w"), indent=1)
    return 0
if __name__ == "__main__":
    sys.exit(main())
